/* C09 harness: the WebSocket layer of the real server code.
 *
 * Part 1 (compared line by line with the Lean model, Driver/C09.lean): the hybi frame decoder is
 * driven through its read-callback interface exactly like test/wstest.c does, but with scripted
 * read schedules; plus the encoder, base64, SHA-1 and the upgrade handshake.
 *   new                       fresh decoder context, empty input, empty schedule
 *   frames <hex>              append wire bytes to the pending input of the decoder
 *   sched <tok>... [*]        append to the read schedule: <k> = this read returns at most k bytes,
 *                             E = -1/EAGAIN, X = 0 (peer closed), F = -1/EIO;  trailing * = cyclic.
 *                             An exhausted schedule returns everything available (EAGAIN if nothing).
 *   read <len>...             one webSocketsDecodeHybi(ctx, dst, len) call per len; one record each
 *   drain <max> <len>...      call (cycling through the lens) until idle / error / max calls
 *   enc <b64> <hex>           webSocketsEncode on a context with base64=<b64>
 *   b64e <hex> | b64d <hex> <targsize> | sha1 <hex>
 *   hs <hexrequest> [closed]  real connection over a socketpair with the request as first bytes
 *                             (closed: the client half-closes after them; else it just stays silent)
 *   wx <b64> <len> <seed>     rfbWriteExact of len pseudo-random bytes on a WebSocket connection
 * Part 2 (end to end, checked by the Python oracle): conn / seg / rs / pump / scut / out, see below.
 *   thr <tcp|ws> <auth> <markerkey> <deadline-ms> <prehex> <seghex|W|R<n>>...
 *                             the same kind of conversation served by the THREADED loop
 *                             (rfbRunEventLoop(..., TRUE) + a clientInput thread), in a child process
 */
#define _GNU_SOURCE
#include "sess.h"
#include "ws_decode.h"
#include "base64.h"
#include "crypto.h"
#include <dlfcn.h>
#include <sys/select.h>
#include <stdarg.h>
#include <sys/wait.h>
#include <sys/resource.h>
#include <sys/time.h>
#include <signal.h>
#include <pthread.h>

/* ------------------------------------------------------------------ decoder through the callback */
static ws_ctx_t *W;
static vh_buf pend; static size_t pend_off;
#define MAXS 4096
static int sched[MAXS], nsched, isched, cyc;
static vh_buf rlog;
#define DBUF ((long)sizeof(W->codeBufDecode))

static void rlogf(const char *fmt, ...) {
  char tmp[128]; va_list ap; int n;
  va_start(ap, fmt); n = vsnprintf(tmp, sizeof tmp, fmt, ap); va_end(ap);
  vh_buf_add(&rlog, tmp, (size_t)n);
}

static int emu_read(void *ctx, char *dst, size_t len) {
  long off = dst - W->codeBufDecode;
  size_t avail = pend.n - pend_off, take;
  int tok, bad;
  (void)ctx;
  bad = (off < 0 || off > DBUF || len == 0 || len > (size_t)(DBUF - off));
  if (rlog.n) rlogf(",");
  rlogf("%ld:%llu", off, (unsigned long long)len);
  if (bad) {              /* request outside the decode buffer: record it, never perform it */
    rlogf(":BAD");
    if (off < 0 || off > DBUF) { errno = EFAULT; return -1; }
    if (len > (size_t)(DBUF - off)) len = (size_t)(DBUF - off);
    if (len == 0) return 0;
  }
  if (isched < nsched) { tok = sched[isched++]; if (cyc && isched == nsched) isched = 0; }
  else tok = 1 << 30;
  if (tok == -2) { rlogf(":X"); return 0; }
  if (tok == -3) { rlogf(":F"); errno = EIO; return -1; }
  if (tok == -1 || avail == 0) { rlogf(":E"); errno = EAGAIN; return -1; }
  take = (size_t)tok; if (take > len) take = len; if (take > avail) take = avail;
  memcpy(dst, pend.p + pend_off, take); pend_off += take;
  rlogf(":%lu", (unsigned long)take);
  return (int)take;
}

static const char *ename(int e) {
  switch (e) {
    case 0: return "0"; case EAGAIN: return "EAGAIN"; case EPROTO: return "EPROTO";
    case ECONNRESET: return "ECONNRESET"; case EIO: return "EIO"; case EINTR: return "EINTR";
    case EFAULT: return "EFAULT";
    default: { static char b[16]; snprintf(b, sizeof b, "E%d", e); return b; }
  }
}

/* the library's error log as an application may install it: like a real logger (stdio on a pipe,
   syslog) it leaves errno changed.  Installed for the decoder ops: what the decoder reports after
   a failed transport read must be the transport's errno, not the logger's. */
static void c09_errlog(const char *fmt, ...) { (void)fmt; errno = ENOTTY; }

static void fresh(void) {
  rfbErr = c09_errlog;
  if (W) free(W);
  W = (ws_ctx_t *)calloc(1, sizeof *W);
  hybiDecodeCleanupComplete(W);
  W->decode = webSocketsDecodeHybi;
  W->ctxInfo.readFunc = emu_read;
  W->ctxInfo.ctxPtr = W;
  vh_buf_reset(&pend); pend_off = 0; nsched = isched = cyc = 0;
}

static void poff(const char *name, const char *p) {
  if (!p) printf(" %s=N", name); else printf(" %s=%ld", name, (long)(p - W->codeBufDecode));
}

/* one decode call, one record */
static int one_read(int len, int *ret_out) {
  static char *dst; static int dcap;
  int ret, e, i;
  if (len > dcap) { dst = (char *)realloc(dst, (size_t)len + 1); dcap = len; }
  vh_buf_reset(&rlog);
  /* the decoder must never write behind codeBufDecode: guard the bytes that follow it */
  memset(W->codeBufEncode, 0xA5, 16);
  errno = 0;
  ret = webSocketsDecodeHybi(W, dst, len);
  e = ret < 0 ? errno : 0;
  for (i = 0; i < 16; i++) if ((unsigned char)W->codeBufEncode[i] != 0xA5) { printf("CANARY "); break; }
  printf("ret=%d e=%s d=", ret, ename(e));
  vh_puthex(stdout, (unsigned char *)dst, ret > 0 ? (size_t)ret : 0);
  printf(" R=["); fwrite(rlog.p, 1, rlog.n, stdout); printf("]");
  printf(" S=%d nr=%d hl=%d pl=%llu np=%llu cl=%d:", W->hybiDecodeState, W->header.nRead,
         W->header.headerLen, (unsigned long long)W->header.payloadLen,
         (unsigned long long)W->nReadPayload, W->carrylen);
  vh_puthex(stdout, (unsigned char *)W->carryBuf,
            (W->carrylen > 0 && W->carrylen <= 3) ? (size_t)W->carrylen : 0);
  poff("wp", W->writePos); poff("rp", (char *)W->readPos);
  printf(" rl=%d co=%d op=%d fin=%d m=", W->readlen, W->continuation_opcode, W->header.opcode,
         W->header.fin);
  for (i = 0; i < 4; i++) printf("%02x", (unsigned char)W->header.mask.c[i]);
  *ret_out = ret;
  return e;
}

/* ------------------------------------------------------------------ end-to-end connections */
#define MAXC 8
typedef struct {
  vh_conn c; int used, ws;
  vh_buf segs;            /* queued segments: 4-byte length + bytes */
  size_t segoff;
  int rs[256], nrs, irs, rscyc;
  vh_buf ev;
} e2e_t;
static e2e_t E[MAXC];
static rfbScreenInfoPtr scr;
static int thr_mode, thr_done; static unsigned long thr_marker;   /* set in the child of a `thr` op only */

static e2e_t *by_srvfd(int fd) {
  int i;
  for (i = 0; i < MAXC; i++)
    if (E[i].used && E[i].c.cl && E[i].c.cl->sock == fd) return &E[i];
  return NULL;
}
static int feed_one(e2e_t *e) {
  uint32_t n;
  if (e->segoff >= e->segs.n) return 0;
  memcpy(&n, e->segs.p + e->segoff, 4);
  vh_send(&e->c, e->segs.p + e->segoff + 4, n);
  e->segoff += 4 + n;
  return 1;
}

/* interposed select: a server-side socket that is being waited on for reading and has nothing
   pending gets the next queued segment first -> deterministic segmentation on a real socket */
int select(int nfds, fd_set *r, fd_set *w, fd_set *x, struct timeval *t) {
  static int (*real)(int, fd_set *, fd_set *, fd_set *, struct timeval *);
  int fd;
  if (!real) real = (int (*)(int, fd_set *, fd_set *, fd_set *, struct timeval *))dlsym(RTLD_NEXT, "select");
  if (r && !thr_mode)
    for (fd = 0; fd < nfds; fd++)
      if (FD_ISSET(fd, r)) {
        e2e_t *e = by_srvfd(fd);
        if (e && vh_srv_pending(fd) == 0) feed_one(e);
      }
  return real(nfds, r, w, x, t);
}
/* interposed setsockopt: on a real TCP connection TCP_NODELAY succeeds and leaves errno alone; on the
   AF_UNIX socketpair it would fail and overwrite the stale errno the `peek` op wants to study */
#include <netinet/in.h>
int setsockopt(int fd, int level, int name, const void *val, socklen_t len) {
  static int (*real)(int, int, int, const void *, socklen_t);
  if (!real) real = (int (*)(int, int, int, const void *, socklen_t))dlsym(RTLD_NEXT, "setsockopt");
  if (level == IPPROTO_TCP) return 0;
  return real(fd, level, name, val, len);
}
/* interposed read: clamp the size of reads on a server-side socket to the scripted sizes */
ssize_t read(int fd, void *buf, size_t n) {
  static ssize_t (*real)(int, void *, size_t);
  e2e_t *e;
  if (!real) real = (ssize_t (*)(int, void *, size_t))dlsym(RTLD_NEXT, "read");
  e = (scr && !thr_mode) ? by_srvfd(fd) : NULL;
  if (e && e->nrs && n > 0) {
    int k = -1;
    if (e->irs < e->nrs) { k = e->rs[e->irs++]; if (e->rscyc && e->irs == e->nrs) e->irs = 0; }
    if (k == 0) { errno = EAGAIN; return -1; }
    if (k > 0 && (size_t)k < n) n = (size_t)k;
  }
  return real(fd, buf, n);
}

static pthread_mutex_t evmu = PTHREAD_MUTEX_INITIALIZER;   /* callbacks run in clientInput threads in `thr` */
static void evf(rfbClientPtr cl, const char *fmt, ...) {
  vh_conn *c = (vh_conn *)cl->clientData; e2e_t *e = (e2e_t *)c;
  char tmp[128]; va_list ap; int n;
  if (!e) return;
  va_start(ap, fmt); n = vsnprintf(tmp, sizeof tmp, fmt, ap); va_end(ap);
  pthread_mutex_lock(&evmu);
  if (e->ev.n) vh_buf_add(&e->ev, ",", 1);
  vh_buf_add(&e->ev, tmp, (size_t)n);
  pthread_mutex_unlock(&evmu);
}
static void on_kbd(rfbBool down, rfbKeySym key, rfbClientPtr cl) {
  evf(cl, "k%d:%lu", down ? 1 : 0, (unsigned long)key);
  if (thr_mode && (unsigned long)key == thr_marker) __atomic_store_n(&thr_done, 1, __ATOMIC_RELEASE);
}
/* `thr` with auth=1: VNC authentication whose accepted response is a constant, so that the client
   can send it without waiting for the challenge (response + ClientInit in one frame) */
static rfbBool c09_pwcheck(rfbClientPtr cl, const char *resp, int len) {
  (void)cl; return (len == 16 && !memcmp(resp, "0123456789abcdef", 16)) ? TRUE : FALSE;
}
static void on_ptr(int mask, int x, int y, rfbClientPtr cl) { evf(cl, "p%d:%d:%d", mask, x, y); }
static void on_cut(char *s, int len, rfbClientPtr cl) { evf(cl, "c%d:%016llx", len, (unsigned long long)vh_fnv((unsigned char *)s, (size_t)len)); }

static void need_screen(void) {
  int x, y;
  if (scr) return;
  scr = vh_screen(64, 48, 4);
  if (!scr) { fprintf(stderr, "no screen\n"); exit(2); }
  for (y = 0; y < 48; y++) for (x = 0; x < 64; x++)
    ((uint32_t *)scr->frameBuffer)[y * 64 + x] = (uint32_t)(x * 0x010203u + y * 0x050709u + 0x112233u);
  scr->kbdAddEvent = on_kbd; scr->ptrAddEvent = on_ptr; scr->setXCutText = on_cut;
  scr->alwaysShared = TRUE;
}

static int alive(e2e_t *e) { return e->used && e->c.cl && e->c.cl->sock != RFB_INVALID_SOCKET; }

static void e2e_close(e2e_t *e) {
  if (!e->used) return;
  if (e->c.peer >= 0) { close(e->c.peer); e->c.peer = -1; }
  if (e->c.cl) { if (e->c.cl->sock != RFB_INVALID_SOCKET) rfbCloseClient(e->c.cl); }
  rfbProcessEvents(scr, 0);
  if (e->c.cl) rfbProcessEvents(scr, 0);
  free(e->segs.p); free(e->ev.p); free(e->c.out.p);
  memset(e, 0, sizeof *e);
}

/* like vh_connect_pre, optionally half-closing the client side after the first bytes so that the
   server's next read returns 0 */
static int c09_connect(rfbScreenInfoPtr sc, vh_conn *c, const void *pre, size_t prelen, int shut) {
  int sv[2];
  memset(c, 0, sizeof *c);
  if (socketpair(AF_UNIX, SOCK_STREAM, 0, sv) < 0) return -1;
  fcntl(sv[1], F_SETFL, fcntl(sv[1], F_GETFL) | O_NONBLOCK);
  { int sz = 4 << 20; setsockopt(sv[0], SOL_SOCKET, SO_SNDBUF, &sz, sizeof sz);
    setsockopt(sv[1], SOL_SOCKET, SO_SNDBUF, &sz, sizeof sz);
    setsockopt(sv[1], SOL_SOCKET, SO_RCVBUF, &sz, sizeof sz);
    setsockopt(sv[0], SOL_SOCKET, SO_RCVBUF, &sz, sizeof sz); }
  c->peer = sv[1]; c->srvfd = sv[0];
  if (prelen) { if (write(sv[1], pre, prelen) != (ssize_t)prelen) return -1; }
  if (shut) shutdown(sv[1], SHUT_WR);
  c->cl = rfbNewClient(sc, sv[0]);
  if (c->cl) { c->cl->clientData = c; c->cl->clientGoneHook = vh_gone_hook; }
  return 0;
}

static long find_hdr_end(const unsigned char *p, size_t n) {
  size_t i;
  for (i = 0; i + 4 <= n; i++) if (!memcmp(p + i, "\r\n\r\n", 4)) return (long)(i + 4);
  return -1;
}

/* number of RFB bytes the server has sent so far (thr op): raw count on TCP, payload of the complete
   unmasked frames after the 101 response on WebSocket (base64: decoded length) */
static size_t srv_rfb_bytes(e2e_t *e) {
  const unsigned char *p = e->c.out.p; size_t n = e->c.out.n, tot = 0; long he;
  if (!e->ws) return n;
  he = find_hdr_end(p, n);
  if (he < 0) return 0;
  p += he; n -= (size_t)he;
  while (n >= 2) {
    size_t hl = 2, len = p[1] & 0x7f; int text = (p[0] & 0x0f) == 1;
    if (len == 126) { if (n < 4) break; len = ((size_t)p[2] << 8) | p[3]; hl = 4; }
    else if (len == 127) { int i; if (n < 10) break; len = 0; for (i = 2; i < 10; i++) len = (len << 8) | p[i]; hl = 10; }
    if (n < hl + len) break;
    if (!text) tot += len;
    else { size_t d = len / 4 * 3; if (len >= 1 && p[hl + len - 1] == '=') d--; if (len >= 2 && p[hl + len - 2] == '=') d--; tot += d; }
    p += hl + len; n -= hl + len;
  }
  return tot;
}

static void pump(e2e_t *e) {
  int idle_rounds = 0, iter = 0;
  while (idle_rounds < 2 && iter < 200000) {
    int busy = 0;
    if (alive(e) && vh_srv_pending(e->c.cl->sock) == 0 && e->segoff < e->segs.n) { feed_one(e); busy = 1; }
    if (rfbProcessEvents(scr, 0)) busy = 1;
    vh_drain(&e->c);
    if (alive(e) && (vh_srv_pending(e->c.cl->sock) > 0 || e->segoff < e->segs.n)) busy = 1;
    if (!alive(e) && e->c.cl == NULL) break;
    idle_rounds = busy ? 0 : idle_rounds + 1; iter++;
  }
}

int main(void) {
  char *line; static char *tok[VH_MAXTOK];
  static unsigned char *hb; size_t hcap = 1 << 22;
  hb = (unsigned char *)malloc(hcap);
  fresh();
  while ((line = vh_readline())) {
    int n = vh_split(line, tok, VH_MAXTOK);
    if (n == 0 || tok[0][0] == '#') continue;
    if (!strcmp(tok[0], "new") && n == 1) { fresh(); puts("ok"); }
    else if (!strcmp(tok[0], "frames") && n == 2) {
      long k = vh_unhex(tok[1], hb, hcap);
      if (k < 0) { puts("bad-op"); continue; }
      vh_buf_add(&pend, hb, (size_t)k); puts("ok");
    } else if (!strcmp(tok[0], "sched") && n >= 2) {
      int i, ok = 1;
      for (i = 1; i < n && ok; i++) {
        if (!strcmp(tok[i], "*") && i == n - 1) { cyc = 1; break; }
        if (nsched >= MAXS) { ok = 0; break; }
        if (!strcmp(tok[i], "E")) sched[nsched++] = -1;
        else if (!strcmp(tok[i], "X")) sched[nsched++] = -2;
        else if (!strcmp(tok[i], "F")) sched[nsched++] = -3;
        else { int v = atoi(tok[i]); if (v <= 0) ok = 0; else sched[nsched++] = v; }
      }
      puts(ok ? "ok" : "bad-op");
    } else if (!strcmp(tok[0], "read") && n >= 2) {
      int i, ret;
      for (i = 1; i < n; i++) {
        int len = atoi(tok[i]);
        if (len <= 0) { printf("bad-len"); break; }
        if (i > 1) printf(" ; ");
        one_read(len, &ret);
      }
      putchar('\n');
    } else if (!strcmp(tok[0], "drain") && n >= 3) {
      int max = atoi(tok[1]), calls = 0, ret, e;
      while (calls < max) {
        int len = atoi(tok[2 + calls % (n - 2)]);
        if (len <= 0) { printf("bad-len"); break; }
        if (calls) printf(" ; ");
        e = one_read(len, &ret); calls++;
        if (ret == 0 || (ret < 0 && e != EAGAIN)) break;
        if (ret < 0 && pend_off == pend.n) break;   /* EAGAIN and nothing left to feed */
      }
      putchar('\n');
    } else if (!strcmp(tok[0], "enc") && n == 3) {
      static rfbClientRec dummy; static ws_ctx_t *w2; char *dst = NULL; int r;
      long k = vh_unhex(tok[2], hb, hcap);
      if (k < 0) { puts("bad-op"); continue; }
      if (!w2) w2 = (ws_ctx_t *)calloc(1, sizeof *w2);
      w2->base64 = atoi(tok[1]); dummy.wsctx = (wsCtx *)w2;
      r = webSocketsEncode(&dummy, (char *)hb, (int)k, &dst);
      printf("%d ", r); vh_puthex(stdout, (unsigned char *)dst, r > 0 ? (size_t)r : 0); putchar('\n');
    } else if (!strcmp(tok[0], "b64e") && n == 2) {
      long k = vh_unhex(tok[1], hb, hcap); char *o; int r;
      if (k < 0) { puts("bad-op"); continue; }
      o = (char *)malloc((size_t)k * 2 + 8);
      r = rfbBase64NtoP(hb, (size_t)k, o, (size_t)k * 2 + 8);
      printf("%d ", r); vh_puthex(stdout, (unsigned char *)o, r > 0 ? (size_t)r : 0); putchar('\n');
      free(o);
    } else if (!strcmp(tok[0], "b64d") && n == 3) {
      long k = vh_unhex(tok[1], hb, hcap - 1); unsigned char *o; int r; long ts = atol(tok[2]);
      if (k < 0 || ts < 0) { puts("bad-op"); continue; }
      hb[k] = 0;
      o = (unsigned char *)malloc((size_t)ts + 1);
      r = rfbBase64PtoN((char *)hb, o, (size_t)ts);
      printf("%d ", r); vh_puthex(stdout, o, r > 0 ? (size_t)r : 0); putchar('\n');
      free(o);
    } else if (!strcmp(tok[0], "sha1") && n == 2) {
      long k = vh_unhex(tok[1], hb, hcap); unsigned char h[SHA1_HASH_SIZE];
      if (k < 0) { puts("bad-op"); continue; }
      hash_sha1(h, hb, (size_t)k);
      vh_puthex(stdout, h, sizeof h); putchar('\n');
    } else if ((!strcmp(tok[0], "hs") && (n == 2 || (n == 3 && !strcmp(tok[2], "closed")))) || (!strcmp(tok[0], "wx") && n == 4)) {
      /* a real connection: upgrade request as the first bytes, response read back */
      static const char *req0 = "GET / HTTP/1.1\r\nHost: h\r\nOrigin: o\r\nSec-WebSocket-Key: dGhlIHNhbXBsZSBub25jZQ==\r\nSec-WebSocket-Version: 13\r\nSec-WebSocket-Protocol: %s\r\n\r\n";
      e2e_t *e = &E[MAXC - 1]; long k, he; int ishs = tok[0][0] == 'h';
      need_screen();
      if (ishs) k = vh_unhex(tok[1], hb, hcap);
      else k = snprintf((char *)hb, hcap, req0, atoi(tok[1]) ? "base64" : "binary");
      if (k < 0) { puts("bad-op"); continue; }
      memset(e, 0, sizeof *e); e->used = 1;
      c09_connect(scr, &e->c, hb, (size_t)k, ishs && n == 3);
      vh_drain(&e->c);
      he = find_hdr_end(e->c.out.p, e->c.out.n);
      if (ishs) {
        if (e->c.cl) {
          ws_ctx_t *wc = (ws_ctx_t *)e->c.cl->wsctx;
          printf("hs ok resp="); vh_puthex(stdout, e->c.out.p, he > 0 ? (size_t)he : e->c.out.n);
          printf(" rest="); if (he > 0) vh_puthex(stdout, e->c.out.p + he, e->c.out.n - (size_t)he); else printf("-");
          printf(" ws=%d b64=%d path=", wc ? 1 : 0, (wc && wc->base64) ? 1 : 0);
          vh_puthex(stdout, (unsigned char *)(e->c.cl->wspath ? e->c.cl->wspath : ""), e->c.cl->wspath ? strlen(e->c.cl->wspath) : 0);
          putchar('\n');
        } else { printf("hs fail resp="); vh_puthex(stdout, e->c.out.p, e->c.out.n); putchar('\n'); }
      } else {
        int len = atoi(tok[2]), i, r; char *buf;
        if (!e->c.cl || !e->c.cl->wsctx || len < 0) { puts("wx no-conn"); e2e_close(e); continue; }
        vh_buf_reset(&e->c.out);
        buf = (char *)malloc((size_t)len + 1);
        vh_srand((uint64_t)atoll(tok[3]));
        for (i = 0; i < len; i++) buf[i] = (char)(vh_rand() & 0xff);
        r = rfbWriteExact(e->c.cl, buf, len);
        vh_drain(&e->c);
        printf("wx %d ", r); vh_puthex(stdout, e->c.out.p, e->c.out.n); putchar('\n');
        free(buf);
      }
      e2e_close(e);
    }
    /* peek <hexpre|-> <errno: 0|EAGAIN|EINTR> <then-hex|-> <delay-ms>: what rfbNewClient's webSocketsCheck does
       when only the first bytes of the client's greeting have arrived and errno holds a stale
       value.  Runs in a child process with a wall-clock limit so that a spin is an observation
       (CPU time consumed), not a hang of the harness. */
    else if (!strcmp(tok[0], "peek") && n == 5) {
      long k = vh_unhex(tok[1], hb, hcap); int en = !strcmp(tok[2], "EAGAIN") ? EAGAIN : !strcmp(tok[2], "EINTR") ? EINTR : 0;
      static unsigned char later[4096]; long k2 = vh_unhex(tok[3], later, sizeof later); int delay = atoi(tok[4]);
      int pfd[2]; pid_t pid; int status = 0, waited = 0; struct rusage ru; char line2[128]; ssize_t got;
      need_screen();
      if (k < 0 || k2 < 0 || pipe(pfd) < 0) { puts("bad-op"); continue; }
      fflush(stdout);
      pid = fork();
      if (pid == 0) {
        e2e_t *e = &E[MAXC - 1]; struct timeval t0, t1; long ms; char out[128]; int sv[2], len;
        close(pfd[0]);
        memset(e, 0, sizeof *e); e->used = 1;
        socketpair(AF_UNIX, SOCK_STREAM, 0, sv);
        fcntl(sv[1], F_SETFL, fcntl(sv[1], F_GETFL) | O_NONBLOCK);
        if (k) { if (write(sv[1], hb, (size_t)k) < 0) _exit(3); }
        if (k2 && delay > 0) {               /* a second process delivers the rest later */
          if (fork() == 0) { usleep((useconds_t)delay * 1000); if (write(sv[1], later, (size_t)k2) < 0) _exit(3); _exit(0); }
        }
        gettimeofday(&t0, NULL);
        errno = en;
        e->c.cl = rfbNewClient(scr, sv[0]);
        gettimeofday(&t1, NULL);
        ms = (t1.tv_sec - t0.tv_sec) * 1000 + (t1.tv_usec - t0.tv_usec) / 1000;
        len = snprintf(out, sizeof out, "returned client=%s ws=%d ms=%s", e->c.cl ? "ok" : "null",
                       (e->c.cl && e->c.cl->wsctx) ? 1 : 0, ms < 60 ? "<60" : ms < 400 ? "60..400" : ">=400");
        if (write(pfd[1], out, (size_t)len) < 0) _exit(3);
        _exit(0);
      }
      close(pfd[1]);
      while (waited < 1500 && waitpid(pid, &status, WNOHANG) == 0) { usleep(10000); waited += 10; }
      if (waited >= 1500) { kill(pid, SIGKILL); waitpid(pid, &status, 0); }
      getrusage(RUSAGE_CHILDREN, &ru);
      got = read(pfd[0], line2, sizeof line2 - 1); close(pfd[0]);
      if (got > 0) { line2[got] = 0; printf("peek %s\n", line2); }
      else printf("peek hung after 1500 ms (killed)\n");
    }
    /* thr: the conversation through the threaded loop.  Child process: the library's listener thread
       runs (without listening sockets), the connection gets its clientInput thread exactly like an
       accepted one (rfbNewClient + rfbStartOnHoldClient); this thread plays the client: sends the
       segments back to back, then waits until the callback for the marker key has run (or the
       connection is closed, or the deadline passes). */
    else if (!strcmp(tok[0], "thr") && n >= 6) {
      int pfd[2]; pid_t pid; int status = 0, waited = 0, deadline = atoi(tok[4]); vh_buf res = {0};
      need_screen();
      if (deadline <= 0 || pipe(pfd) < 0) { puts("bad-op"); continue; }
      fflush(stdout);
      pid = fork();
      if (pid == 0) {
        e2e_t *e = &E[MAXC - 1]; int sv[2], i, eof = 0, done = 0, waitfail = 0; long k; struct timeval t0, t1; long ms = 0;
        FILE *o = fdopen(pfd[1], "w");
        close(pfd[0]);
        memset(e, 0, sizeof *e); e->used = 1; e->ws = !strcmp(tok[1], "ws");
        if (atoi(tok[2])) { scr->authPasswdData = (void *)"x"; scr->passwordCheck = c09_pwcheck; }
        scr->maxClientWait = 20000;
        thr_mode = 1; thr_marker = strtoul(tok[3], NULL, 10);
        rfbRunEventLoop(scr, 40000, TRUE);
        if (socketpair(AF_UNIX, SOCK_STREAM, 0, sv) < 0) _exit(3);
        fcntl(sv[1], F_SETFL, fcntl(sv[1], F_GETFL) | O_NONBLOCK);
        e->c.peer = sv[1]; e->c.srvfd = sv[0];
        k = vh_unhex(tok[5], hb, hcap);
        if (k < 0 || write(sv[1], hb, (size_t)k) != (ssize_t)k) _exit(3);
        e->c.cl = rfbNewClient(scr, sv[0]);
        if (!e->c.cl) { fprintf(o, "thr conn=fail"); fflush(o); _exit(0); }
        e->c.cl->clientData = &e->c;
        { int isws = e->c.cl->wsctx != NULL, b64 = isws && ((ws_ctx_t *)e->c.cl->wsctx)->base64;
          rfbStartOnHoldClient(e->c.cl);
          fprintf(o, "thr conn=ok ws=%d b64=%d", isws, b64 ? 1 : 0); }
        for (i = 6; i < n; i++) {
          if (!strcmp(tok[i], "W")) {        /* let the server work off what it has got */
            int w = 0;
            while (w < 2000 && vh_srv_pending(sv[0]) > 0) { usleep(500); w++; }
            usleep(15000); vh_drain(&e->c);
            continue;
          }
          if (tok[i][0] == 'R') {            /* an interactive client: wait for the server's answers (RFB byte count) */
            size_t need = (size_t)atol(tok[i] + 1); int w = 0;
            while (w < 3000 && !eof && srv_rfb_bytes(e) < need) { eof = vh_drain(&e->c); usleep(1000); w++; }
            if (srv_rfb_bytes(e) < need) { waitfail = i - 5; break; }
            continue;
          }
          k = vh_unhex(tok[i], hb, hcap);
          if (k < 0 || vh_send(&e->c, hb, (size_t)k) < 0) break;
        }
        gettimeofday(&t0, NULL);
        while (!done && !eof && !waitfail && ms < deadline) {
          eof = vh_drain(&e->c);
          done = __atomic_load_n(&thr_done, __ATOMIC_ACQUIRE);
          if (!done && !eof) usleep(500);
          gettimeofday(&t1, NULL);
          ms = (t1.tv_sec - t0.tv_sec) * 1000 + (t1.tv_usec - t0.tv_usec) / 1000;
        }
        usleep(20000); if (vh_drain(&e->c)) eof = 1;
        pthread_mutex_lock(&evmu);
        fprintf(o, " done=%d closed=%d noanswer=%d got=%lu ev=", done, eof, waitfail, (unsigned long)srv_rfb_bytes(e));
        if (e->ev.n) fwrite(e->ev.p, 1, e->ev.n, o); else fputc('-', o);
        pthread_mutex_unlock(&evmu);
        fprintf(o, " out=");
        if (e->c.out.n) vh_puthex(o, e->c.out.p, e->c.out.n); else fputc('-', o);
        fflush(o);
        _exit(0);
      }
      close(pfd[1]);
      fcntl(pfd[0], F_SETFL, fcntl(pfd[0], F_GETFL) | O_NONBLOCK);
      for (;;) {
        char tmp[4096]; ssize_t got = read(pfd[0], tmp, sizeof tmp);
        if (got > 0) { vh_buf_add(&res, tmp, (size_t)got); continue; }
        if (got == 0) break;
        if (waited >= deadline + 5000) break;
        usleep(2000); waited += 2;
      }
      close(pfd[0]);
      if (waitpid(pid, &status, WNOHANG) == 0) { kill(pid, SIGKILL); waitpid(pid, &status, 0); }
      if (res.n) fwrite(res.p, 1, res.n, stdout); else printf("thr no-report");
      if (!WIFEXITED(status) || WEXITSTATUS(status) != 0) printf(" child-status=%d", status);
      putchar('\n');
      free(res.p);
    }
    /* ---------------- end to end ---------------- */
    else if (!strcmp(tok[0], "conn") && n >= 3) {
      int id = atoi(tok[1]); e2e_t *e; long k = 0;
      need_screen();
      if (id < 0 || id >= MAXC - 1 || E[id].used) { puts("bad-op"); continue; }
      e = &E[id]; memset(e, 0, sizeof *e); e->used = 1; e->ws = !strcmp(tok[2], "ws");
      if (e->ws) { if (n != 4 || (k = vh_unhex(tok[3], hb, hcap)) < 0) { e->used = 0; puts("bad-op"); continue; } }
      else { memcpy(hb, "RFB 003.008\n", 12); k = 12; }
      vh_connect_pre(scr, &e->c, hb, (size_t)k);
      printf("conn %s ws=%d b64=%d\n", e->c.cl ? "ok" : "fail", (e->c.cl && e->c.cl->wsctx) ? 1 : 0,
             (e->c.cl && e->c.cl->wsctx && ((ws_ctx_t *)e->c.cl->wsctx)->base64) ? 1 : 0);
    } else if (!strcmp(tok[0], "seg") && n == 3) {
      int id = atoi(tok[1]); long k = vh_unhex(tok[2], hb, hcap); uint32_t l;
      if (id < 0 || id >= MAXC - 1 || !E[id].used || k <= 0) { puts("bad-op"); continue; }
      l = (uint32_t)k; vh_buf_add(&E[id].segs, &l, 4); vh_buf_add(&E[id].segs, hb, (size_t)k); puts("ok");
    } else if (!strcmp(tok[0], "rs") && n >= 3) {
      int id = atoi(tok[1]), i; e2e_t *e;
      if (id < 0 || id >= MAXC - 1 || !E[id].used) { puts("bad-op"); continue; }
      e = &E[id]; e->nrs = e->irs = e->rscyc = 0;
      for (i = 2; i < n && e->nrs < 256; i++) {
        if (!strcmp(tok[i], "*")) { e->rscyc = 1; break; }
        e->rs[e->nrs++] = !strcmp(tok[i], "E") ? 0 : atoi(tok[i]);
      }
      puts("ok");
    } else if (!strcmp(tok[0], "pump") && n == 2) {
      int id = atoi(tok[1]); e2e_t *e;
      if (id < 0 || id >= MAXC - 1 || !E[id].used) { puts("bad-op"); continue; }
      e = &E[id];
      pump(e);
      printf("pump alive=%d left=%lu ev=", alive(e), (unsigned long)(e->segs.n - e->segoff));
      if (e->ev.n) fwrite(e->ev.p, 1, e->ev.n, stdout); else putchar('-');
      printf(" out="); vh_puthex(stdout, e->c.out.p, e->c.out.n); putchar('\n');
      vh_buf_reset(&e->ev); vh_buf_reset(&e->c.out);
    } else if (!strcmp(tok[0], "scut") && n == 3) {
      int len = atoi(tok[1]), i; char *buf;
      need_screen();
      if (len < 0) { puts("bad-op"); continue; }
      buf = (char *)malloc((size_t)len + 1);
      vh_srand((uint64_t)atoll(tok[2]));
      for (i = 0; i < len; i++) buf[i] = (char)(0x20 + (vh_rand() % 95));
      rfbSendServerCutText(scr, buf, len);
      free(buf); puts("ok");
    } else if (!strcmp(tok[0], "close") && n == 2) {
      int id = atoi(tok[1]);
      if (id < 0 || id >= MAXC - 1 || !E[id].used) { puts("bad-op"); continue; }
      e2e_close(&E[id]); puts("ok");
    } else puts("bad-op");
    fflush(stdout);
  }
  { int i; for (i = 0; i < MAXC; i++) if (E[i].used) e2e_close(&E[i]); }
  if (scr) { free(scr->frameBuffer); rfbScreenCleanup(scr); }
  free(W); free(hb); free(pend.p); free(rlog.p);
  return 0;
}
