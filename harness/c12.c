/* C12 harness: connection life cycle on the real server code (application-driven event loop).
 *
 * One op per line on stdin, exactly one observation line per op on stdout:
 *     <events or "-"> | <state>
 * events (in the order they happened during the op):
 *     new cN            rfbNewClient() is about to be called for connection N
 *     hook cN <dec>     the application's newClientHook ran (accept|hold|refuse)
 *     ret cN ptr|null   what rfbNewClient returned
 *     close cN          close() was called on cN's server descriptor (every call is reported)
 *     gone cN           the application's clientGoneHook ran
 *     kbd cN            the keyboard callback ran (closes the client from inside when armed)
 *     fault cN <call>   the armed fault was injected into an I/O call of connection N
 *     uac cN <call>     the library used cN's descriptor after closing it
 * state: per connection `cN:L<inList>:<open|closed|->:h<onHold>:<st>:g<gone>:k<closes>:<res>`,
 *     then `refs=<refcount main>,<refcount scaled 1>,...` and `stray=<fds nobody owns>`.
 *
 * The libc calls the server makes on its client sockets (read, write, recv, select, close, fcntl)
 * are interposed at link level: close() is counted per connection and the descriptor number is
 * kept reserved (dup2 of /dev/null) so that a second close or a later use is seen, waits are
 * virtual (the peer lives in this very thread, so a wait can never be satisfied later), and ONE
 * fault can be armed at a global I/O index (`fault <kind> at=<k>`), kinds:
 *     eof   read/recv returns 0 (write: EPIPE), sticky        reset  ECONNRESET, sticky
 *     stall EAGAIN on every call + never ready (=> timeout), sticky
 *     short 1 byte transferred    again  one EAGAIN    (both harmless for a correct server)
 * ops: conn cN hook=accept|hold|refuse [ws=G] [nb=1] | ver|sec|init S|enc E|req|scale K|pf|key|junk|
 *      partial|ft|send HEX|closepeer|resetpeer cN (each: write to the peer socket, then run the event
 *      loop to rest) | appclose|start|refuse cN | kbdclose cN | gonekick cN cM | ext | pump | out cN |
 *      pw (clients must authenticate from now on) | auth cN ok|bad | ptr cN MASK | ftgo cN | cursor | shutdown0 |
 *      hconn cN hook=.. [via=get] (connection handed over by the HTTP server's proxy support) |
 *      extrefuse cN (the extension's init hook will ask to be removed) | extdrop cN | extadd cN |
 *      draw SEED (repaint the framebuffer, mark it modified, run the loop) | shutdown | cleanup | end
 */
#define _GNU_SOURCE
#include "sess.h"
#include <dlfcn.h>
#include <dirent.h>
#include <stdarg.h>
#include <signal.h>
#include <sys/select.h>
#include <sys/stat.h>
#include <sanitizer/lsan_interface.h>

#define MAXC 96
#define FBW 128
#define FBH 96
#define MAXFD 1024

typedef struct {
  int used, id;
  rfbClientPtr cl;       /* live record known to the application (hook ran, gone hook not yet) */
  int peer, srvfd;
  int hooked, gone, closes, isws, kbdclose, gonekick, xrefuse;
  int decision;          /* what the newClientHook answers */
  vh_buf out;
} conn_t;

static conn_t conns[MAXC];
static rfbScreenInfoPtr scr;
static int cleaned = 0;
static conn_t *pending = NULL;
static int http_ls[2] = {-1, -1};   /* stand-in for the HTTP listening socket (never readable) + its other end */
static int http_down = 0;           /* rfbShutdownServer has closed the HTTP sockets */
static int fdconn[MAXFD];       /* conn index + 1 owning this server descriptor number */
static int fdplace[MAXFD];      /* 1: the number is only a placeholder (server closed it) */
static int fdsticky[MAXFD];     /* 0 none, else fault kind that sticks to the descriptor */
static int devnull = -1;
static long io_index = 0;
static long fault_at = -1; static int fault_kind = 0; static int nbfail = 0;
enum { F_NONE, F_EOF, F_RESET, F_STALL, F_SHORT, F_AGAIN };
static char evbuf[1 << 16]; static size_t evlen = 0;
static char ftpath[256];
static char iokinds[1 << 15]; /* one letter per server I/O call: r read, w write, p recv(MSG_PEEK) */

static void ev(const char *fmt, ...) {
  va_list ap; int n;
  if (evlen + 64 > sizeof evbuf) return;
  if (evlen) evbuf[evlen++] = ' ';
  va_start(ap, fmt); n = vsnprintf(evbuf + evlen, sizeof evbuf - evlen, fmt, ap); va_end(ap);
  if (n > 0) evlen += (size_t)n;
}

/* ------------------------------------------------------------------ interposed libc calls */
typedef ssize_t (*read_t)(int, void *, size_t);
typedef ssize_t (*write_t)(int, const void *, size_t);
typedef ssize_t (*recv_t)(int, void *, size_t, int);
typedef int (*select_t)(int, fd_set *, fd_set *, fd_set *, struct timeval *);
typedef int (*close_t)(int);
typedef int (*fcntl_t)(int, int, ...);
static read_t real_read; static write_t real_write; static recv_t real_recv;
static select_t real_select; static close_t real_close; static fcntl_t real_fcntl;
static void reals(void) {
  if (real_read) return;
  real_read = (read_t)dlsym(RTLD_NEXT, "read"); real_write = (write_t)dlsym(RTLD_NEXT, "write");
  real_recv = (recv_t)dlsym(RTLD_NEXT, "recv"); real_select = (select_t)dlsym(RTLD_NEXT, "select");
  real_close = (close_t)dlsym(RTLD_NEXT, "close"); real_fcntl = (fcntl_t)dlsym(RTLD_NEXT, "fcntl");
}
static int tracked(int fd) { return fd >= 0 && fd < MAXFD && fdconn[fd]; }
static int cid(int fd) { return conns[fdconn[fd] - 1].id; }

/* common part of read/write/recv on a server descriptor. returns 1 when *res/errno are final */
static int io_fault(int fd, const char *call, int is_write, size_t *len, ssize_t *res) {
  long idx;
  if (fdplace[fd]) { ev("uac c%d %s", cid(fd), call); errno = EBADF; *res = -1; return 1; }
  idx = io_index++;
  if (idx < (long)sizeof iokinds - 1) iokinds[idx] = call[0] == 'w' ? 'w' : call[1] == 'e' && call[2] == 'c' ? 'p' : 'r';
  if (getenv("VH_IOTRACE")) fprintf(stderr, "io %ld c%d %s len=%zu\n", idx, cid(fd), call, *len);
  if (!fdsticky[fd] && idx == fault_at) {
    ev("fault c%d %s", cid(fd), call);
    switch (fault_kind) {
      case F_EOF: case F_RESET: case F_STALL: fdsticky[fd] = fault_kind; break;
      case F_SHORT: if (*len > 1) *len = 1; return 0;
      case F_AGAIN: errno = EAGAIN; *res = -1; return 1;
    }
  }
  switch (fdsticky[fd]) {
    case F_EOF: if (is_write) { errno = EPIPE; *res = -1; } else *res = 0; return 1;
    case F_RESET: errno = ECONNRESET; *res = -1; return 1;
    case F_STALL: errno = EAGAIN; *res = -1; return 1;
  }
  return 0;
}

/* the server's client sockets must be non-blocking: a read with nothing to read on a blocking socket
   would never return (the peer lives in this thread).  Virtual time: report it and let the call fail
   with EAGAIN so that the run goes on and ends. */
static int would_hang(int fd, const char *call) {
  char ch; int fl = real_fcntl(fd, F_GETFL, 0);
  if (fl < 0 || (fl & O_NONBLOCK)) return 0;
  if (real_recv(fd, &ch, 1, MSG_PEEK | MSG_DONTWAIT) < 0 && (errno == EAGAIN || errno == EWOULDBLOCK)) {
    ev("wouldhang c%d %s", cid(fd), call);
    errno = EAGAIN;
    return 1;
  }
  return 0;
}
ssize_t read(int fd, void *buf, size_t n) {
  ssize_t r; reals();
  if (tracked(fd) && io_fault(fd, "read", 0, &n, &r)) return r;
  if (tracked(fd) && would_hang(fd, "read")) return -1;
  return real_read(fd, buf, n);
}
ssize_t write(int fd, const void *buf, size_t n) {
  ssize_t r; reals();
  if (tracked(fd) && io_fault(fd, "write", 1, &n, &r)) return r;
  return real_write(fd, buf, n);
}
ssize_t recv(int fd, void *buf, size_t n, int flags) {
  ssize_t r; reals();
  if (tracked(fd) && io_fault(fd, "recv", 0, &n, &r)) return r;
  if (tracked(fd) && would_hang(fd, "recv")) return -1;
  return real_recv(fd, buf, n, flags);
}
int close(int fd) {
  reals();
  if (tracked(fd)) {
    conn_t *c = &conns[fdconn[fd] - 1];
    c->closes++; ev("close c%d", c->id);
    if (!fdplace[fd]) { fdplace[fd] = 1; dup2(devnull, fd); }   /* peer sees EOF, number stays reserved */
    return 0;
  }
  return real_close(fd);
}
int fcntl(int fd, int cmd, ...) {
  va_list ap; long arg; reals();
  va_start(ap, cmd); arg = va_arg(ap, long); va_end(ap);
  if (tracked(fd) && cmd == F_SETFL && nbfail) { nbfail = 0; ev("fault c%d fcntl", cid(fd)); errno = EINVAL; return -1; }
  return real_fcntl(fd, cmd, arg);
}
/* virtual time: never wait (nothing can arrive while this single thread sits in the server) */
int select(int nfds, fd_set *r, fd_set *w, fd_set *e, struct timeval *tv) {
  struct timeval zero = {0, 0}; fd_set forced; int fd, nforced = 0, n; fd_set *sets[3];
  int k;
  reals();
  sets[0] = r; sets[1] = w; sets[2] = e;
  FD_ZERO(&forced);
  for (fd = 0; fd < nfds && fd < MAXFD; fd++) {
    int in = 0;
    for (k = 0; k < 3; k++) if (sets[k] && FD_ISSET(fd, sets[k])) in = 1;
    if (!in || !tracked(fd)) continue;
    if (fdplace[fd]) { ev("uac c%d select", cid(fd)); errno = EBADF; return -1; }
    if (fdsticky[fd] == F_STALL) { for (k = 0; k < 3; k++) if (sets[k]) FD_CLR(fd, sets[k]); }
    else if ((fdsticky[fd] == F_EOF || fdsticky[fd] == F_RESET) && r && FD_ISSET(fd, r)) {
      FD_SET(fd, &forced); nforced++; FD_CLR(fd, r);
    }
  }
  (void)tv;
  n = real_select(nfds, r, w, e, &zero);
  if (n < 0) return n;
  for (fd = 0; fd < nfds && fd < MAXFD; fd++) if (FD_ISSET(fd, &forced)) { FD_SET(fd, r); n++; }
  return n;
}

/* ------------------------------------------------------------------ application callbacks */
static const char *decname(int d) { return d == RFB_CLIENT_ACCEPT ? "accept" : d == RFB_CLIENT_ON_HOLD ? "hold" : "refuse"; }

static void gone_hook(rfbClientPtr cl) {
  conn_t *c = (conn_t *)cl->clientData;
  if (!c) { ev("gone ?"); return; }
  c->gone++; ev("gone c%d", c->id);
  c->cl = NULL;
  if (c->gonekick) {           /* application policy: when this one goes, kick connection gonekick-1 */
    conn_t *o = &conns[c->gonekick - 1];
    if (o->used && o->cl) rfbCloseClient(o->cl);
  }
}
static enum rfbNewClientAction new_hook(rfbClientPtr cl) {
  conn_t *c = pending;
  if (!c) { ev("hook ?"); return RFB_CLIENT_ACCEPT; }
  c->cl = cl; c->hooked = 1;
  cl->clientData = c; cl->clientGoneHook = gone_hook;
  ev("hook c%d %s", c->id, decname(c->decision));
  return (enum rfbNewClientAction)c->decision;
}
static void kbd_hook(rfbBool down, rfbKeySym key, rfbClientPtr cl) {
  conn_t *c = (conn_t *)cl->clientData;
  (void)down; (void)key;
  if (!c) return;
  ev("kbd c%d", c->id);
  if (c->kbdclose) rfbCloseClient(cl);      /* close from inside a callback */
}
static int ft_perm(rfbClientPtr cl) { (void)cl; return TRUE; }
/* an application-supplied protocol extension that enables itself for every new client */
/* with per-client data: allocated in newClient, released by close (the only place an extension can
   release it); every call of the three hooks is an event */
typedef struct { int connid; char pad[40]; } ext_data;
static rfbBool ext_new(rfbClientPtr cl, void **data) {
  ext_data *d = (ext_data *)calloc(1, sizeof *d);
  (void)cl;
  d->connid = pending ? pending->id : -1;
  *data = d;
  ev("xnew c%d", d->connid);
  return TRUE;
}
static rfbBool ext_init(rfbClientPtr cl, void *data) {
  conn_t *c = (conn_t *)cl->clientData;
  ev("xinit c%d", data ? ((ext_data *)data)->connid : -1);
  if (c && c->xrefuse) {      /* "remove me": the library calls rfbDisableExtension, which frees the data */
    ev("xdrop c%d", c->id);
    return FALSE;
  }
  return TRUE;
}
static void ext_close(rfbClientPtr cl, void *data) {
  conn_t *c = (conn_t *)cl->clientData;
  if (data) { ev("xclose c%d d", ((ext_data *)data)->connid); free(data); }
  else ev("xclose c%d n", c ? c->id : -1);
}
static rfbProtocolExtension harness_ext = { ext_new, ext_init, NULL, NULL, NULL, ext_close, NULL, NULL, NULL };
/* a second one without data, init or close hook (only its list node has to be released) */
/* ... but WITH data (not heap: nothing to free): nobody may call its missing close hook for it */
static int ext2_static;
static rfbBool ext2_new(rfbClientPtr cl, void **data) { (void)cl; *data = &ext2_static; return TRUE; }
static rfbProtocolExtension harness_ext2 = { ext2_new, NULL, NULL, NULL, NULL, NULL, NULL, NULL, NULL };
/* VNC authentication with an application-supplied check: the response is right iff it starts with 1 */
static rfbBool pw_check(rfbClientPtr cl, const char *response, int len) { (void)cl; return len > 0 && response[0] == 1; }

/* ------------------------------------------------------------------ helpers */
static conn_t *getc_(const char *tok) {
  int id;
  if (tok[0] != 'c') return NULL;
  id = atoi(tok + 1);
  if (id < 0 || id >= MAXC || !conns[id].used) return NULL;
  return &conns[id];
}
static void drain(conn_t *c) {
  unsigned char tmp[65536];
  if (c->peer < 0) return;
  for (;;) { ssize_t n = real_read(c->peer, tmp, sizeof tmp); if (n > 0) { vh_buf_add(&c->out, tmp, (size_t)n); continue; } break; }
}
static void peer_write(conn_t *c, const unsigned char *p, size_t n) {
  size_t off = 0; int spins = 0;
  if (c->peer < 0) return;
  while (off < n && spins < 1000) {
    ssize_t w = real_write(c->peer, p + off, n - off);
    if (w < 0) { if (errno == EAGAIN || errno == EINTR) { drain(c); spins++; continue; } return; }
    off += (size_t)w;
  }
}
/* client -> server payload; websocket connections get a masked binary frame */
static void peer_send(conn_t *c, const unsigned char *p, size_t n) {
  if (c->isws == 2) {
    unsigned char f[8 + 200]; static const unsigned char mk[4] = {0x11, 0x22, 0x33, 0x44}; size_t i;
    if (n > 125) return;
    f[0] = 0x82; f[1] = (unsigned char)(0x80 | n); memcpy(f + 2, mk, 4);
    for (i = 0; i < n; i++) f[6 + i] = p[i] ^ mk[i & 3];
    peer_write(c, f, 6 + n);
  } else peer_write(c, p, n);
}
static int srv_pending(int fd) { int n = 0; if (ioctl(fd, FIONREAD, &n) < 0) return 0; return n; }

static void pump(void) {
  int idle = 0, iter = 0, i;
  if (cleaned) return;
  while (idle < 2) {
    int busy = 0; rfbClientPtr cl;
    if (++iter > 2000) { ev("pump-cap"); break; }
    if (rfbProcessEvents(scr, 0)) busy = 1;
    for (i = 0; i < MAXC; i++) if (conns[i].used) drain(&conns[i]);
    for (cl = scr->clientHead; cl; cl = cl->next)
      if (cl->sock == RFB_INVALID_SOCKET) busy = 1;    /* closed, not yet reaped */
      else if (!cl->onHold &&
               (srv_pending(cl->sock) > 0 || (cl->sock < MAXFD && (fdsticky[cl->sock] == F_EOF || fdsticky[cl->sock] == F_RESET)))) busy = 1;
    idle = busy ? 0 : idle + 1;
  }
}

static const char *stname(rfbClientPtr cl) {
  switch (cl->state) {
    case RFB_PROTOCOL_VERSION: return "ver"; case RFB_SECURITY_TYPE: return "sec";
    case RFB_AUTHENTICATION: return "auth"; case RFB_INITIALISATION: return "init";
    case RFB_NORMAL: return "normal"; default: return "other";
  }
}
static int scaled_index(rfbScreenInfoPtr s) {
  int k = 0; rfbScreenInfoPtr p;
  for (p = scr; p; p = p->scaledScreenNext, k++) if (p == s) return k;
  return -1;
}
static int count_stray(void) {
  DIR *d = opendir("/proc/self/fd"); struct dirent *de; int stray = 0, dfd;
  if (!d) return -1;
  dfd = dirfd(d);
  while ((de = readdir(d))) {
    int fd, i, known = 0;
    if (de->d_name[0] == '.') continue;
    fd = atoi(de->d_name);
    if (fd <= 2 || fd == dfd || fd == devnull) continue;
    if (fd < MAXFD && fdconn[fd]) continue;
    if (fd == http_ls[0] || fd == http_ls[1]) continue;
    for (i = 0; i < MAXC; i++) if (conns[i].used && conns[i].peer == fd) known = 1;
    if (!known) stray++;
  }
  closedir(d);
  return stray;
}

static void print_state(void) {
  int i, first = 1; rfbClientPtr cl; rfbScreenInfoPtr p;
  fputs(evlen ? evbuf : "-", stdout); evlen = 0; evbuf[0] = 0;
  fputs(" | ", stdout);
  for (i = 0; i < MAXC; i++) {
    conn_t *c = &conns[i]; rfbClientPtr me = NULL;
    if (!c->used) continue;
    if (!first) putchar(' ');
    first = 0;
    if (!cleaned) for (cl = scr->clientHead; cl; cl = cl->next) if (cl->clientData == c) me = cl;
    if (me) {
      int open = me->sock != RFB_INVALID_SOCKET;
      printf("c%d:L1:%s:h%d:%s:g%d:k%d:", c->id, open ? "open" : "closed", me->onHold ? 1 : 0, stname(me), c->gone, c->closes);
      if (open) {
        int t = 0, k; for (k = 0; k < 4; k++) if (me->zsActive[k]) t++;
        int ne = 0, nd = 0; rfbExtensionData *xd; for (xd = me->extensions; xd; xd = xd->next) { ne++; if (xd->extension == &harness_ext && xd->data) nd++; }
        printf("s%dz%dt%dj%dr%db%du%dx%dw%dp%df%de%dd%d", scaled_index(me->scaledScreen), me->compStreamInited ? 1 : 0, t,
               me->tightTJ ? 1 : 0, me->zrleData ? 1 : 0, (me->beforeEncBuf ? 1 : 0) + (me->afterEncBuf ? 1 : 0),
               me->compStreamInitedLZO ? 1 : 0, me->translateLookupTable ? 1 : 0, me->wsctx ? 1 : 0,
               me->wspath ? 1 : 0, me->fileTransfer.fd >= 0 ? 1 : 0, ne, nd);
      } else putchar('-');
    } else printf("c%d:L0:-:-:-:g%d:k%d:-", c->id, c->gone, c->closes);
  }
  if (first) putchar('-');
  if (!cleaned) {
    int unknown = 0;
    for (cl = scr->clientHead; cl; cl = cl->next) if (!cl->clientData) unknown++;
    fputs(" | refs=", stdout);
    for (p = scr, i = 0; p; p = p->scaledScreenNext, i++) printf("%s%d", i ? "," : "", p->scaledScreenRefCount);
    if (unknown) printf(" unknown=%d", unknown);
    {
      rfbClientPtr po = scr->pointerClient; int found = 0;
      for (cl = scr->clientHead; cl; cl = cl->next) if (cl == po) found = 1;
      if (!po) fputs(" po=-", stdout);
      else if (!found) fputs(" po=dangling", stdout);      /* never dereferenced */
      else if (po->clientData) printf(" po=c%d", ((conn_t *)po->clientData)->id);
      else fputs(" po=?", stdout);
    }
  } else fputs(" | refs=-", stdout);
  printf(" stray=%d\n", count_stray());
}

static const char WS_REQ_TAIL[] =
  "Host: localhost:5900\r\nUpgrade: websocket\r\nConnection: Upgrade\r\n"
  "Sec-WebSocket-Key: dGhlIHNhbXBsZSBub25jZQ==\r\nOrigin: http://localhost\r\n"
  "Sec-WebSocket-Protocol: binary\r\nSec-WebSocket-Version: 13\r\n\r\n";

static void run_ops(void);
/* last resort against a wedged server: every op has to finish within a minute of real time */
static char cur_op[128];
static void watchdog(int sig) {
  static const char m[] = "WATCHDOG: the server does not return from op: ";
  (void)sig;
  if (write(2, m, sizeof m - 1) < 0 || write(2, cur_op, strlen(cur_op)) < 0 || write(2, "\n", 1) < 0) _exit(4);
  _exit(3);
}
static void finish(void);

int main(void) {
  int i;
  reals();
  devnull = open("/dev/null", O_RDWR);
  signal(SIGPIPE, SIG_IGN);
  signal(SIGALRM, watchdog);
  scr = vh_screen(FBW, FBH, 4);
  if (!scr) { fprintf(stderr, "no screen\n"); return 2; }
  vh_srand(12);
  /* incompressible content: encoded updates are larger than the server's 32 KiB update buffer, so an
     update takes several writes and a failure can hit it mid-send */
  for (i = 0; i < FBW * FBH * 4; i++) scr->frameBuffer[i] = (char)vh_rand();
  scr->newClientHook = new_hook;
  scr->kbdAddEvent = kbd_hook;
  scr->permitFileTransfer = TRUE;
  scr->getFileTransferPermission = ft_perm;
  /* the file a FileTransferRequest asks for: name, size and time stamp go into the server's answer,
     so it must be the same in every run (streams are compared across runs): the harness binary itself */
  snprintf(ftpath, sizeof ftpath, "/proc/self/exe");
  run_ops();
  finish();
  _exit(0);
}

/* own frame: no pointer to a client record survives on the stack when the leak check runs */
static void __attribute__((noinline)) run_ops(void) {
  char *line, *tok[32];
  while ((line = vh_readline())) {
    int n;
    conn_t *c;
    snprintf(cur_op, sizeof cur_op, "%.120s", line);
    alarm(60);
    n = vh_split(line, tok, 32);
    if (n == 0 || tok[0][0] == '#') continue;
    if (!strcmp(tok[0], "variant")) { puts("ok"); fflush(stdout); continue; }
    if (!strcmp(tok[0], "end")) break;
    if (cleaned) { puts("bad-op"); fflush(stdout); continue; }
    if (!strcmp(tok[0], "fault") && n == 3 && !strncmp(tok[2], "at=", 3)) {
      const char *k = tok[1];
      fault_kind = !strcmp(k, "eof") ? F_EOF : !strcmp(k, "reset") ? F_RESET : !strcmp(k, "stall") ? F_STALL :
                   !strcmp(k, "short") ? F_SHORT : !strcmp(k, "again") ? F_AGAIN : F_NONE;
      fault_at = atol(tok[2] + 3);
      puts("ok"); fflush(stdout); continue;
    }
    if (!strcmp(tok[0], "conn") && n >= 2 && tok[1][0] == 'c') {
      int id = atoi(tok[1] + 1), sv[2], ws = 0, nb = 0, dec = RFB_CLIENT_ACCEPT, j;
      rfbClientPtr r;
      if (id < 0 || id >= MAXC || conns[id].used || (id > 0 && !conns[id - 1].used)) { puts("bad-op"); fflush(stdout); continue; }  /* ids are sequential */
      for (j = 2; j < n; j++) {
        if (!strcmp(tok[j], "hook=hold")) dec = RFB_CLIENT_ON_HOLD;
        else if (!strcmp(tok[j], "hook=refuse")) dec = RFB_CLIENT_REFUSE;
        else if (!strncmp(tok[j], "ws=", 3)) ws = atoi(tok[j] + 3);
        else if (!strcmp(tok[j], "nb=1")) nb = 1;
      }
      c = &conns[id]; memset(c, 0, sizeof *c);
      c->used = 1; c->id = id; c->decision = dec; c->peer = c->srvfd = -1;
      if (socketpair(AF_UNIX, SOCK_STREAM, 0, sv) < 0 || sv[0] >= MAXFD) { puts("bad-op"); fflush(stdout); continue; }
      real_fcntl(sv[1], F_SETFL, real_fcntl(sv[1], F_GETFL, 0) | O_NONBLOCK);
      { int sz = 1 << 20; setsockopt(sv[0], SOL_SOCKET, SO_SNDBUF, &sz, sizeof sz); setsockopt(sv[1], SOL_SOCKET, SO_SNDBUF, &sz, sizeof sz); }
      c->peer = sv[1]; c->srvfd = sv[0];
      fdconn[sv[0]] = id + 1; fdplace[sv[0]] = 0; fdsticky[sv[0]] = 0;
      if (ws > 0) {
        char req[4096]; int off = 0, g;
        for (g = 0; g < ws && off < 3000; g++) off += snprintf(req + off, sizeof req - off, "GET /path%d HTTP/1.1\r\n", g);
        off += snprintf(req + off, sizeof req - off, "%s", WS_REQ_TAIL);
        peer_write(c, (unsigned char *)req, (size_t)off);
        c->isws = 1;
      }
      nbfail = nb;
      pending = c;
      ev("new c%d", id);
      r = rfbNewClient(scr, sv[0]);
      pending = NULL; nbfail = 0;
      ev("ret c%d %s", id, r ? "ptr" : "null");
      if (r && c->isws && r->wsctx) c->isws = 2;
      drain(c);
      print_state(); fflush(stdout); continue;
    }
    if (!strcmp(tok[0], "pw") && n == 1) {        /* from now on new clients must authenticate */
      scr->authPasswdData = (void *)"x"; scr->passwordCheck = pw_check;
      print_state(); fflush(stdout); continue;
    }
    if (!strcmp(tok[0], "cursor") && n == 1) {    /* a cursor the screen owns (freed by rfbScreenCleanup) */
      char *src = strdup("xx  " " xx " "  xx" "   x"), *msk = strdup("xx  " "xxx " " xxx" "  xx");
      rfbCursorPtr cur = rfbMakeXCursor(4, 4, src, msk);
      free(src); free(msk);
      cur->cleanup = TRUE; cur->cleanupSource = TRUE; cur->cleanupMask = TRUE;
      rfbSetCursor(scr, cur);
      print_state(); fflush(stdout); continue;
    }
    if (!strcmp(tok[0], "shutdown0") && n == 1) { rfbShutdownServer(scr, FALSE); http_down = 1; http_ls[0] = -1; print_state(); fflush(stdout); continue; }
    if (!strcmp(tok[0], "hconn") && n >= 2 && tok[1][0] == 'c') {
      /* second entry point: the built-in HTTP server with proxy connections enabled hands the
         connection over to rfbNewClientConnection (CONNECT host:port  or  GET /proxied.connection) */
      int id = atoi(tok[1] + 1), sv[2], dec = RFB_CLIENT_ACCEPT, j, get = 0, tries;
      char req[128];
      if (id < 0 || id >= MAXC || conns[id].used || (id > 0 && !conns[id - 1].used) || http_down) { puts("bad-op"); fflush(stdout); continue; }
      for (j = 2; j < n; j++) {
        if (!strcmp(tok[j], "hook=hold")) dec = RFB_CLIENT_ON_HOLD;
        else if (!strcmp(tok[j], "hook=refuse")) dec = RFB_CLIENT_REFUSE;
        else if (!strcmp(tok[j], "via=get")) get = 1;
      }
      if (http_ls[0] < 0) {
        if (socketpair(AF_UNIX, SOCK_STREAM, 0, http_ls) < 0) { puts("bad-op"); fflush(stdout); continue; }
        scr->httpDir = (char *)"/nonexistent-c12"; scr->httpEnableProxyConnect = TRUE;
        scr->httpListenSock = http_ls[0];
      }
      c = &conns[id]; memset(c, 0, sizeof *c);
      c->used = 1; c->id = id; c->decision = dec; c->peer = c->srvfd = -1;
      if (socketpair(AF_UNIX, SOCK_STREAM, 0, sv) < 0 || sv[0] >= MAXFD) { puts("bad-op"); fflush(stdout); continue; }
      real_fcntl(sv[1], F_SETFL, real_fcntl(sv[1], F_GETFL, 0) | O_NONBLOCK);
      real_fcntl(sv[0], F_SETFL, real_fcntl(sv[0], F_GETFL, 0) | O_NONBLOCK);   /* as httpd's accept path does */
      { int sz = 1 << 20; setsockopt(sv[0], SOL_SOCKET, SO_SNDBUF, &sz, sizeof sz); setsockopt(sv[1], SOL_SOCKET, SO_SNDBUF, &sz, sizeof sz); }
      c->peer = sv[1]; c->srvfd = sv[0];
      fdconn[sv[0]] = id + 1; fdplace[sv[0]] = 0; fdsticky[sv[0]] = 0;
      if (get) snprintf(req, sizeof req, "GET /proxied.connection HTTP/1.0\r\n\r\n");
      else snprintf(req, sizeof req, "CONNECT localhost:%d HTTP/1.0\r\n\r\n", scr->port);
      peer_write(c, (unsigned char *)req, strlen(req));
      pending = c;
      ev("new c%d", id);
      scr->httpSock = sv[0];
      for (tries = 0; tries < 4 && scr->httpSock == sv[0]; tries++) rfbHttpCheckFds(scr);
      if (scr->httpSock == sv[0]) {
        /* the request never completed (stalled read): the HTTP server keeps the connection until the
           next HTTP client replaces it -- do what rfbHttpCheckFds does then */
        close(sv[0]); scr->httpSock = RFB_INVALID_SOCKET;
      }
      pending = NULL;
      ev("ret c%d %s", id, c->cl ? "ptr" : "null");
      drain(c);
      print_state(); fflush(stdout); continue;
    }
    if (!strcmp(tok[0], "ext") && n <= 2) {
      /* registration order decides where the node of the extension with data sits in cl->extensions:
         "ext" -> first (head), "ext rev" -> behind the other one */
      if (n == 2) { rfbRegisterProtocolExtension(&harness_ext2); rfbRegisterProtocolExtension(&harness_ext); }
      else { rfbRegisterProtocolExtension(&harness_ext); rfbRegisterProtocolExtension(&harness_ext2); }
      print_state(); fflush(stdout); continue; }
    if (!strcmp(tok[0], "draw") && n == 2) {   /* the application paints, then the loop runs to rest */
      int seed = atoi(tok[1]), k;
      vh_srand((uint64_t)seed * 7919 + 1);
      for (k = 0; k < FBW * FBH * 4; k++) scr->frameBuffer[k] = (char)vh_rand();
      rfbMarkRectAsModified(scr, 0, 0, FBW, FBH);
      pump(); print_state(); fflush(stdout); continue;
    }
    if (!strcmp(tok[0], "pump") && n == 1) { pump(); print_state(); fflush(stdout); continue; }
    if (!strcmp(tok[0], "shutdown") && n == 1) { rfbShutdownServer(scr, TRUE); http_down = 1; http_ls[0] = -1; print_state(); fflush(stdout); continue; }
    if (!strcmp(tok[0], "cleanup") && n == 1) {
      char *fb = scr->frameBuffer;
      rfbScreenCleanup(scr); free(fb); cleaned = 1;
      print_state(); fflush(stdout); continue;
    }
    if (n < 2 || !(c = getc_(tok[1]))) { puts("bad-op"); fflush(stdout); continue; }
    if (!strcmp(tok[0], "ver")) { peer_send(c, (const unsigned char *)"RFB 003.008\n", 12); pump(); }
    else if (!strcmp(tok[0], "sec")) { unsigned char b = scr->authPasswdData ? 2 : 1; peer_send(c, &b, 1); pump(); }
    else if (!strcmp(tok[0], "auth") && n == 3) {   /* 16-byte response, right iff `ok` */
      unsigned char m[16]; memset(m, 7, sizeof m); m[0] = !strcmp(tok[2], "ok") ? 1 : 0; peer_send(c, m, 16); pump();
    }
    else if (!strcmp(tok[0], "ptr") && n == 3) {    /* PointerEvent, button 1 down / all up */
      unsigned char m[6] = {5, 0, 0, 10, 0, 10}; m[1] = (unsigned char)atoi(tok[2]); peer_send(c, m, 6); pump();
    }
    else if (!strcmp(tok[0], "ftgo")) {             /* FileHeader "ready": the download starts */
      unsigned char m[12]; memset(m, 0, sizeof m); m[0] = rfbFileTransfer; m[1] = rfbFileHeader; m[7] = 1; peer_send(c, m, 12); pump();
    }
    else if (!strcmp(tok[0], "init") && n == 3) { unsigned char b = (unsigned char)atoi(tok[2]); peer_send(c, &b, 1); pump(); }
    else if (!strcmp(tok[0], "enc") && n == 3) {
      unsigned char m[8] = {2, 0, 0, 1, 0, 0, 0, 0}; const char *e = tok[2];
      m[7] = !strcmp(e, "raw") ? 0 : !strcmp(e, "rre") ? 2 : !strcmp(e, "corre") ? 4 : !strcmp(e, "hextile") ? 5 :
             !strcmp(e, "zlib") ? 6 : !strcmp(e, "tight") ? 7 : !strcmp(e, "ultra") ? 9 : !strcmp(e, "zrle") ? 16 : 0;
      peer_send(c, m, 8); pump();
    }
    else if (!strcmp(tok[0], "req")) { unsigned char m[10] = {3, 0, 0, 0, 0, 0, 0, FBW, 0, FBH}; peer_send(c, m, 10); pump(); }
    else if (!strcmp(tok[0], "scale") && n == 3) { unsigned char m[4] = {rfbSetScale, 0, 0, 0}; m[1] = (unsigned char)atoi(tok[2]); peer_send(c, m, 4); pump(); }
    else if (!strcmp(tok[0], "pf")) {
      unsigned char m[20] = {0, 0, 0, 0, 8, 8, 0, 1, 0, 7, 0, 7, 0, 3, 0, 3, 6, 0, 0, 0}; peer_send(c, m, 20); pump();
    }
    else if (!strcmp(tok[0], "key")) { unsigned char m[8] = {4, 1, 0, 0, 0, 0, 0, 0x41}; peer_send(c, m, 8); pump(); }
    else if (!strcmp(tok[0], "kbdclose")) { c->kbdclose = 1; }
    else if (!strcmp(tok[0], "extrefuse")) { c->xrefuse = 1; }
    else if (!strcmp(tok[0], "extdrop") || !strcmp(tok[0], "extadd")) {
      /* the application disables / enables its extension for an open client it knows */
      rfbExtensionData *xd; int on = 0;
      if (!c->cl || c->cl->sock == RFB_INVALID_SOCKET) { puts("bad-op"); fflush(stdout); continue; }
      for (xd = c->cl->extensions; xd; xd = xd->next) if (xd->extension == &harness_ext) on = 1;
      if (tok[0][3] == 'd') {
        if (on) { ev("xdrop c%d", c->id); rfbDisableExtension(c->cl, &harness_ext); }
      } else if (!on) {
        ext_data *d = (ext_data *)calloc(1, sizeof *d); d->connid = c->id;
        if (rfbEnableExtension(c->cl, &harness_ext, d)) ev("xnew c%d", c->id); else free(d);
      }
    }
    else if (!strcmp(tok[0], "gonekick") && n == 3) { conn_t *o = getc_(tok[2]); if (!o) { puts("bad-op"); fflush(stdout); continue; } c->gonekick = o->id + 1; }
    else if (!strcmp(tok[0], "junk")) { unsigned char b = 0xEE; peer_send(c, &b, 1); pump(); }
    else if (!strcmp(tok[0], "partial")) {          /* less than the message the server is waiting for */
      rfbClientPtr me = NULL, q; for (q = scr->clientHead; q; q = q->next) if (q->clientData == c) me = q;
      if (c->cl && me && me->state == RFB_AUTHENTICATION) { unsigned char m[8] = {1, 2, 3, 4, 5, 6, 7, 8}; peer_send(c, m, 8); }
      else if (c->cl && me && me->state == RFB_PROTOCOL_VERSION) peer_send(c, (const unsigned char *)"RFB 0", 5);
      else { unsigned char m[2] = {3, 0}; peer_send(c, m, 2); }
      pump();
    }
    else if (!strcmp(tok[0], "ft")) {
      unsigned char m[12 + 300]; size_t l; char name[280];
      snprintf(name, sizeof name, "C:%s", ftpath); l = strlen(name);
      memset(m, 0, sizeof m); m[0] = rfbFileTransfer; m[1] = rfbFileTransferRequest;
      m[8] = 0; m[9] = 0; m[10] = (unsigned char)(l >> 8); m[11] = (unsigned char)l; memcpy(m + 12, name, l);
      peer_send(c, m, 12 + l); pump();
    }
    else if (!strcmp(tok[0], "send") && n == 3) {
      static unsigned char buf[70000]; long l = vh_unhex(tok[2], buf, sizeof buf);
      if (l < 0) { puts("bad-op"); fflush(stdout); continue; }
      peer_send(c, buf, (size_t)l); pump();
    }
    else if (!strcmp(tok[0], "closepeer")) { if (c->peer >= 0) { drain(c); real_close(c->peer); c->peer = -1; } pump(); }
    else if (!strcmp(tok[0], "resetpeer")) {
      /* close with unread server output still queued: the server's next read gets ECONNRESET */
      if (c->peer >= 0) { real_close(c->peer); c->peer = -1; } pump();
    }
    else if (!strcmp(tok[0], "appclose")) { if (!c->cl) { puts("bad-op"); fflush(stdout); continue; } rfbCloseClient(c->cl); }
    else if (!strcmp(tok[0], "start")) { if (!c->cl) { puts("bad-op"); fflush(stdout); continue; } rfbStartOnHoldClient(c->cl); }
    else if (!strcmp(tok[0], "refuse")) { if (!c->cl) { puts("bad-op"); fflush(stdout); continue; } rfbRefuseOnHoldClient(c->cl); }
    else if (!strcmp(tok[0], "out")) {
      drain(c);
      printf("out c%d %zu %016llx\n", c->id, c->out.n, (unsigned long long)vh_fnv(c->out.p, c->out.n));
      vh_buf_reset(&c->out); fflush(stdout); continue;
    }
    else { puts("bad-op"); fflush(stdout); continue; }
    print_state(); fflush(stdout);
  }
}

/* end: release what the harness owns, then ask the leak checker about everything else */
static void __attribute__((noinline)) finish(void) {
  {
    int stray, leaks, fd, openleft = 0, i;
    for (fd = 0; fd < MAXFD; fd++) if (fdconn[fd] && !fdplace[fd]) openleft++;
    stray = count_stray();
    for (i = 0; i < MAXC; i++) {
      if (!conns[i].used) continue;
      if (conns[i].peer >= 0) real_close(conns[i].peer);
      free(conns[i].out.p);
    }
    for (fd = 0; fd < MAXFD; fd++) if (fdconn[fd]) real_close(fd);
    if (http_ls[0] >= 0) real_close(http_ls[0]);
    if (http_ls[1] >= 0) real_close(http_ls[1]);
    memset(conns, 0, sizeof conns); pending = NULL;
    leaks = __lsan_do_recoverable_leak_check();
    printf("end io=%ld openleft=%d stray=%d leaks=%d kinds=%s\n", io_index, openleft, stray, leaks ? 1 : 0,
           iokinds[0] ? iokinds : "-");
    fflush(stdout);
  }
}
