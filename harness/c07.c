/* C07 / C08 harness: server byte streams fed to the REAL LibVNCClient.
 *
 * The client library's socket is one end of an AF_UNIX socketpair, but every read()/write()/
 * select() on that fd is interposed at link level: reads are served from an in-memory server
 * stream with a scripted segmentation, writes are captured.  No threads, fully deterministic.
 *
 * ops (one observation line each):
 *   client bpp depth be tc rmax gmax bmax rs gs bs enc=<a+b+c|-> cursor=0|1 fbmode=0|1|2
 *            fbmode 0: library's own MallocFrameBuffer (pointer recorded, freed by the harness)
 *                   1: harness allocation with canary bands (256 KiB each side)
 *                   2: as 1, but the allocation fails (returns FALSE) for sizes > 8 MiB
 *   adopt bpp depth be tc rmax gmax bmax rs gs bs
 *                          the application adopts this pixel format inside its FIRST MallocFrameBuffer callback
 *                          (the first callback after ServerInit), as viewers do that follow the server's format
 *   setformat <10 fields>  mid-session: client->format = ..., SetFormatAndEncodings, MallocFrameBuffer
 *   wait                   WaitForMessage(client, 0) -> "wait <result>" (virtual select: readable = bytes left in the stream)
 *   seg <n1,n2,...>        read() returns at most n_i bytes (cyclic); "0" = everything available
 *   eos eof|eagain|flaky   behaviour at the end of the scripted stream (flaky: EAGAIN three times, then EOF)
 *   z <id> <hexz> <hexplain>  (for the model only; harness prints ok)
 *   init <hex>             append bytes, run rfbInitClient (listenSpecified: no connect())
 *   feed <hex>             append bytes to the server stream (no library call)
 *   feedrep <hex> <n>      append n repetitions of the bytes (keeps scripts with 10^5 entries short)
 *   play <hs> <m1> <m2>..  PLAY-FILE transport: the handshake bytes and the server messages are written to a vncrec
 *                          log (magic, handshake, then a timestamp record + bytes per message); the library reads it
 *                          through its own -play path (serverPort -1); use `init -` / `msg -` afterwards
 *   msg <hex>              append bytes, run HandleRFBServerMessage once
 *   drain                  run HandleRFBServerMessage until the stream is empty or FALSE (<=10000 calls)
 *   fill x y w h c | copy sx sy w h dx dy | bitmap x y w h <hex>   framebuffer primitives
 *   req x y w h incr       SendFramebufferUpdateRequest
 *   fbdump                 hex of the framebuffer
 *   lzo <hex>              helper for the generator: LZO1X-1 compression by the repo's minilzo
 *   jpegrgb w h q <hexrgb> helper for the generator: JPEG (4:4:4, quality q) of the given RGB image
 *   end                    rfbClientCleanup
 * Hang detection is VIRTUAL: a library call that polls the exhausted stream (read()/select() with
 * nothing left) more than POLL_LIMIT times prints "HANG virtual" and exits 3 -- independent of the
 * machine's load.  A real-time alarm (VH_ALARM seconds, default 60) remains as a backstop for loops
 * that never touch the socket; it prints "HANG realtime" and the Python side confirms it by a
 * serial re-run before reporting it.
 * The library's log functions format their arguments (so the sanitizer checks every %s argument)
 * and discard the text.  After every call client->sock must still be the harness's descriptor (or
 * closed): it is the field right behind client->buffer[RFB_BUFFER_SIZE], so an overflow of the
 * scratch buffer that stays inside struct rfbClient is reported as SCRATCH-OVERFLOW.
 */
#define _GNU_SOURCE
#include <rfb/rfbclient.h>
#include <sys/socket.h>
#include <sys/select.h>
#include <dlfcn.h>
#include <signal.h>
#include <stdarg.h>
#include <zlib.h>
#include "minilzo.h"
#include "turbojpeg.h"
#include "vh.h"

#define BAND (256 * 1024)
#define CANARY 0xA5

static rfbClient *cl;
static int cfd = -1, peerfd = -1;
static vh_buf srvb;                /* server bytes; srvo = read offset */
static size_t srvo = 0;
#define SRV_LEFT (srvb.n - srvo)
static vh_buf out;                 /* bytes written by the library during the current op */
static vh_buf cb;                  /* callback log of the current op */
static long segs[64]; static int nseg = 0, segi = 0; static long segleft = 0;
static int eos_eagain = 0, eos_flaky = 0, flaky_left = 0;
static long polls = 0;            /* read()/select() on the exhausted stream during the current library call */
#define POLL_LIMIT 20000
static void virtual_hang(void);
static long nreads = 0, nselects = 0, neagain = 0;
static unsigned char *fb_base = NULL; static size_t fb_size = 0; static int fb_mode = 0;
static rfbBool (*orig_malloc_fb)(rfbClient *) = NULL;
static int fb_allocs = 0;
static int dead = 0;               /* library returned FALSE / client freed */
static char *encstr = NULL;
static rfbPixelFormat adopt_fmt; static int adopt_state = 0;   /* 1 = pending */
static int play_mode = 0; static char play_path[64];

static ssize_t (*real_read)(int, void *, size_t);
static ssize_t (*real_write)(int, const void *, size_t);
static int (*real_select)(int, fd_set *, fd_set *, fd_set *, struct timeval *);

ssize_t read(int fd, void *buf, size_t n) {
  if (!real_read) real_read = (ssize_t (*)(int, void *, size_t))dlsym(RTLD_NEXT, "read");
  if (fd != cfd || cfd < 0) return real_read(fd, buf, n);
  nreads++;
  if (SRV_LEFT == 0) {
    if (++polls > POLL_LIMIT) virtual_hang();
    if (eos_eagain) { neagain++; errno = EAGAIN; return -1; }
    if (eos_flaky && flaky_left > 0) { flaky_left--; neagain++; errno = EAGAIN; return -1; }
    return 0;
  }
  {
    size_t k = n;
    if (nseg) {
      if (segleft <= 0) { segleft = segs[segi]; segi = (segi + 1) % nseg; }
      if (segleft > 0 && (size_t)segleft < k) k = (size_t)segleft;
    }
    if (k > SRV_LEFT) k = SRV_LEFT;
    if (k == 0) { errno = EAGAIN; return -1; }
    memcpy(buf, srvb.p + srvo, k);
    srvo += k;
    if (srvo == srvb.n) { srvo = 0; srvb.n = 0; }
    if (nseg && segleft > 0) segleft -= (long)k;
    return (ssize_t)k;
  }
}
ssize_t write(int fd, const void *buf, size_t n) {
  if (!real_write) real_write = (ssize_t (*)(int, const void *, size_t))dlsym(RTLD_NEXT, "write");
  if (fd != cfd || cfd < 0) return real_write(fd, buf, n);
  vh_buf_add(&out, buf, n);
  return (ssize_t)n;
}
int select(int nfds, fd_set *r, fd_set *w, fd_set *e, struct timeval *t) {
  if (!real_select) real_select = (int (*)(int, fd_set *, fd_set *, fd_set *, struct timeval *))dlsym(RTLD_NEXT, "select");
  if (cfd >= 0 && nfds == cfd + 1 && ((r && FD_ISSET(cfd, r)) || (w && FD_ISSET(cfd, w)))) {
    nselects++;
    if (w && FD_ISSET(cfd, w)) return 1;
    if (SRV_LEFT > 0) return 1;
    if (++polls > POLL_LIMIT) virtual_hang();
    FD_ZERO(r);
    return eos_eagain ? 0 : 1;      /* virtual time: a timeout elapses at once */
  }
  return real_select(nfds, r, w, e, t);
}

/* ------------------------------------------------------------------ watchdog */
static const char *curop = "";
static int alarm_secs = 60;
static void on_alarm(int sig) {
  static const char m[] = "HANG realtime\n";
  (void)sig; real_write(1, m, sizeof m - 1); _exit(3);
}
static void virtual_hang(void) {
  static const char m[] = "HANG virtual\n";
  fflush(stdout); real_write(1, m, sizeof m - 1); _exit(3);
}
static void guard_on(void) { polls = 0; flaky_left = eos_flaky ? 3 : 0; alarm(alarm_secs); }
static void guard_off(void) { alarm(0); }

/* ------------------------------------------------------------------ log */
/* formats (the sanitizer's printf interceptor checks every %s argument up to its NUL) and discards */
static void quiet_log(const char *fmt, ...) {
  char tmp[512]; va_list ap;
  va_start(ap, fmt); vsnprintf(tmp, sizeof tmp, fmt, ap); va_end(ap);
}
static void cbf(const char *fmt, ...) {
  char tmp[256]; va_list ap; int n;
  va_start(ap, fmt); n = vsnprintf(tmp, sizeof tmp, fmt, ap); va_end(ap);
  if (cb.n) vh_buf_add(&cb, ",", 1);
  vh_buf_add(&cb, tmp, (size_t)n);
}

/* ------------------------------------------------------------------ framebuffer */
static size_t fb_bytes(void) {
  return cl ? (size_t)cl->width * cl->height * (cl->format.bitsPerPixel / 8) : 0;
}
static int canaries_ok(void) {
  size_t i;
  if (fb_mode == 0 || !fb_base) return 1;
  for (i = 0; i < BAND; i++) if (fb_base[i] != CANARY || fb_base[BAND + fb_size + i] != CANARY) return 0;
  return 1;
}
static rfbBool my_malloc_fb(rfbClient *c) {
  uint64_t sz;
  if (adopt_state == 1) { c->format = adopt_fmt; adopt_state = 2; }
  sz = (uint64_t)c->width * c->height * (c->format.bitsPerPixel / 8);
  fb_allocs++;
  cbf("malloc:%d:%d", c->width, c->height);
  if (fb_mode == 0) {
    rfbBool r;
    if (fb_base) { /* the library frees the old one itself */ fb_base = NULL; }
    r = orig_malloc_fb(c);
    fb_base = c->frameBuffer; fb_size = (size_t)sz;
    if (r && c->frameBuffer) memset(c->frameBuffer, 0, (size_t)sz);
    return r;
  }
  if (fb_base) { free(fb_base); fb_base = NULL; }
  c->frameBuffer = NULL;
  if (fb_mode == 2 && sz > (8u << 20)) { fb_size = 0; return FALSE; }
  if (sz > (256u << 20)) { fb_size = 0; return FALSE; }
  fb_base = (unsigned char *)malloc((size_t)sz + 2 * BAND);
  if (!fb_base) return FALSE;
  memset(fb_base, CANARY, BAND); memset(fb_base + BAND, 0, (size_t)sz);
  memset(fb_base + BAND + sz, CANARY, BAND);
  fb_size = (size_t)sz;
  c->frameBuffer = fb_base + BAND;
  return TRUE;
}
static void free_fb(void) {
  if (fb_base) { free(fb_base); fb_base = NULL; }
  if (cl) cl->frameBuffer = NULL;
}

/* ------------------------------------------------------------------ callbacks */
static void cb_update(rfbClient *c, int x, int y, int w, int h) { cbf("upd:%d:%d:%d:%d", x, y, w, h); }
static void cb_finished(rfbClient *c) { cbf("fin"); }
static void cb_bell(rfbClient *c) { cbf("bell"); }
static void cb_cut(rfbClient *c, const char *t, int n) {
  cbf("cut:%d:%08lx", n, (unsigned long)crc32(0, (const Bytef *)t, (uInt)(n > 0 ? n : 0)));
}
static void cb_cursor(rfbClient *c, int xh, int yh, int w, int h, int bpp) {
  cbf("cur:%d:%d:%d:%d:%d:%08lx:%08lx", xh, yh, w, h, bpp,
      (unsigned long)crc32(0, c->rcSource, (uInt)(w * h * bpp)),
      (unsigned long)crc32(0, c->rcMask, (uInt)(w * h)));
}
static char *cb_password(rfbClient *c) { return strdup("verif"); }
static rfbBool cb_curpos(rfbClient *c, int x, int y) { cbf("pos:%d:%d", x, y); return TRUE; }
static void cb_led(rfbClient *c, int v, int pad) { cbf("led:%d", v); }

/* crc32 of the framebuffer with every non-colour bit cleared (padding bits are unspecified) */
static unsigned long masked_crc(void) {
  size_t n = fb_bytes(), i; int bp = cl->format.bitsPerPixel / 8, k;
  uint32_t m = ((uint32_t)cl->format.redMax << cl->format.redShift) |
               ((uint32_t)cl->format.greenMax << cl->format.greenShift) |
               ((uint32_t)cl->format.blueMax << cl->format.blueShift);
  unsigned char mb[4], *tmp; unsigned long r;
  for (k = 0; k < bp; k++) mb[k] = (unsigned char)(cl->format.bigEndian ? (m >> (8 * (bp - 1 - k))) : (m >> (8 * k)));
  tmp = (unsigned char *)malloc(n ? n : 1);
  for (i = 0; i < n; i++) tmp[i] = cl->frameBuffer[i] & mb[i % bp];
  r = crc32(0, tmp, (uInt)n);
  free(tmp);
  return r;
}

/* ------------------------------------------------------------------ output */
static int scratch_ok(void) { return !cl || cfd < 0 || cl->sock == cfd || cl->sock == RFB_INVALID_SOCKET; }
static void put_state(const char *tag, int ok) {
  printf("%s %s", tag, ok ? "T" : "F");
  if (!ok) {                       /* after FALSE the connection is dead: nothing else is observed */
    if (!canaries_ok()) printf(" CANARY-DAMAGED");
    if (!scratch_ok()) printf(" SCRATCH-OVERFLOW");
    if (getenv("VH_VERBOSE")) { printf(" # cb="); if (cb.n) fwrite(cb.p, 1, cb.n, stdout); }
    putchar('\n');
    return;
  }
  if (ok && cl) {
    if (cl->frameBuffer) printf(" fb=%d:%d:%08lx", cl->width, cl->height, masked_crc());
    else printf(" fb=null");
  }
  printf(" cb="); if (cb.n) fwrite(cb.p, 1, cb.n, stdout); else putchar('-');
  printf(" out="); vh_puthex(stdout, out.p, out.n);
  printf(" left=%lu", (unsigned long)(SRV_LEFT + ((ok && cl) ? cl->buffered : 0)));
  if (!canaries_ok()) printf(" CANARY-DAMAGED");
  if (!scratch_ok()) printf(" SCRATCH-OVERFLOW");
  putchar('\n');
}

static unsigned char *hexarg(const char *s, long *n) {
  size_t L = strlen(s) / 2 + 1; unsigned char *p = (unsigned char *)malloc(L);
  *n = vh_unhex(s, p, L);
  if (*n < 0) { free(p); return NULL; }
  return p;
}

int main(void) {
  char *line, *tok[32];
  struct sigaction sa; memset(&sa, 0, sizeof sa); sa.sa_handler = on_alarm; sigaction(SIGALRM, &sa, NULL);
  real_read = (ssize_t (*)(int, void *, size_t))dlsym(RTLD_NEXT, "read");
  real_write = (ssize_t (*)(int, const void *, size_t))dlsym(RTLD_NEXT, "write");
  real_select = (int (*)(int, fd_set *, fd_set *, fd_set *, struct timeval *))dlsym(RTLD_NEXT, "select");
  if (!getenv("VH_VERBOSE")) { rfbClientLog = quiet_log; rfbClientErr = quiet_log; }
  if (getenv("VH_ALARM") && atoi(getenv("VH_ALARM")) > 0) alarm_secs = atoi(getenv("VH_ALARM"));
  while ((line = vh_readline())) {
    int n = vh_split(line, tok, 32);
    if (n == 0 || tok[0][0] == '#') continue;
    curop = tok[0];
    vh_buf_reset(&out); vh_buf_reset(&cb);
    if (!strcmp(tok[0], "client") && n == 14 && !cl) {
      int bpp = atoi(tok[1]), sv[2];
      if (socketpair(AF_UNIX, SOCK_STREAM, 0, sv) < 0) { puts("bad-op"); continue; }
      cl = rfbGetClient(8, 3, bpp / 8);
      if (!cl) { puts("bad-op"); continue; }
      cl->format.bitsPerPixel = bpp; cl->format.depth = atoi(tok[2]);
      cl->format.bigEndian = atoi(tok[3]); cl->format.trueColour = atoi(tok[4]);
      cl->format.redMax = atoi(tok[5]); cl->format.greenMax = atoi(tok[6]); cl->format.blueMax = atoi(tok[7]);
      cl->format.redShift = atoi(tok[8]); cl->format.greenShift = atoi(tok[9]); cl->format.blueShift = atoi(tok[10]);
      if (strcmp(tok[11], "enc=-")) {
        char *e = strdup(tok[11] + 4), *q;
        encstr = e;
        for (q = e; *q; q++) if (*q == '+') *q = ' ';
        cl->appData.encodingsString = e;
      }
      cl->appData.useRemoteCursor = atoi(tok[12] + 7);
      fb_mode = atoi(tok[13] + 7);
      cl->canHandleNewFBSize = TRUE;
      cl->sock = sv[0]; cfd = sv[0]; peerfd = sv[1];
      cl->listenSpecified = TRUE;               /* rfbClientConnect: nothing to connect */
      orig_malloc_fb = cl->MallocFrameBuffer; cl->MallocFrameBuffer = my_malloc_fb;
      cl->GotFrameBufferUpdate = cb_update; cl->FinishedFrameBufferUpdate = cb_finished;
      cl->Bell = cb_bell; cl->GotXCutText = cb_cut; cl->GotCursorShape = cb_cursor;
      cl->HandleCursorPos = cb_curpos; cl->HandleKeyboardLedState = cb_led;
      cl->GetPassword = cb_password;        /* never read a password from stdin (the script) */
      puts("ok");
    } else if (!strcmp(tok[0], "adopt") && n == 11 && cl && !dead && adopt_state == 0) {
      memset(&adopt_fmt, 0, sizeof adopt_fmt);
      adopt_fmt.bitsPerPixel = atoi(tok[1]); adopt_fmt.depth = atoi(tok[2]); adopt_fmt.bigEndian = atoi(tok[3]);
      adopt_fmt.trueColour = atoi(tok[4]); adopt_fmt.redMax = atoi(tok[5]); adopt_fmt.greenMax = atoi(tok[6]);
      adopt_fmt.blueMax = atoi(tok[7]); adopt_fmt.redShift = atoi(tok[8]); adopt_fmt.greenShift = atoi(tok[9]);
      adopt_fmt.blueShift = atoi(tok[10]);
      adopt_state = 1;
      puts("ok");
    } else if (!strcmp(tok[0], "setformat") && n == 11 && cl && !dead) {
      rfbBool r;
      cl->format.bitsPerPixel = atoi(tok[1]); cl->format.depth = atoi(tok[2]); cl->format.bigEndian = atoi(tok[3]);
      cl->format.trueColour = atoi(tok[4]); cl->format.redMax = atoi(tok[5]); cl->format.greenMax = atoi(tok[6]);
      cl->format.blueMax = atoi(tok[7]); cl->format.redShift = atoi(tok[8]); cl->format.greenShift = atoi(tok[9]);
      cl->format.blueShift = atoi(tok[10]);
      guard_on(); r = SetFormatAndEncodings(cl); guard_off();
      if (r) r = cl->MallocFrameBuffer(cl);
      if (!r) dead = 1;
      put_state("setformat", r);
    } else if (!strcmp(tok[0], "wait") && n == 1 && cl && !dead) {
      int r;
      guard_on(); r = WaitForMessage(cl, 0); guard_off();
      printf("wait %d\n", r);
    } else if (!strcmp(tok[0], "seg") && n == 2) {
      char *p = tok[1]; nseg = 0; segi = 0; segleft = 0;
      while (*p && nseg < 64) { long v = strtol(p, &p, 10); if (v > 0) segs[nseg++] = v; if (*p == ',') p++; else break; }
      puts("ok");
    } else if (!strcmp(tok[0], "eos") && n == 2) {
      eos_eagain = !strcmp(tok[1], "eagain");
      eos_flaky = !strcmp(tok[1], "flaky");
      if (cl) cl->readTimeout = eos_eagain ? 1 : 0;   /* flaky: no timeout (the library's default), the EAGAINs end by themselves */
      puts("ok");
    } else if (!strcmp(tok[0], "z")) {
      puts("ok");
    } else if (!strcmp(tok[0], "init") && n == 2 && cl && !dead) {
      long k; unsigned char *p = hexarg(tok[1], &k); rfbBool r;
      if (!p) { puts("bad-op"); continue; }
      vh_buf_add(&srvb, p, (size_t)k); free(p);
      guard_on(); r = rfbInitClient(cl, NULL, NULL); guard_off();
      if (play_mode && play_path[0]) { unlink(play_path); play_path[0] = 0; }
      if (!r) { cl = NULL; dead = 1; cfd = -1; if (fb_base) { free(fb_base); fb_base = NULL; }
                puts("init F"); }
      else {
        printf("init T %d %d name=", cl->width, cl->height);
        vh_puthex(stdout, (unsigned char *)cl->desktopName, strlen(cl->desktopName));
        printf(" cb="); if (cb.n) fwrite(cb.p, 1, cb.n, stdout); else putchar('-');
        printf(" out="); vh_puthex(stdout, out.p, out.n);
        printf(" left=%lu\n", (unsigned long)(SRV_LEFT + cl->buffered));
      }
    } else if (!strcmp(tok[0], "feed") && n == 2 && cl && !dead) {
      long k; unsigned char *p = hexarg(tok[1], &k);
      if (!p) { puts("bad-op"); continue; }
      vh_buf_add(&srvb, p, (size_t)k); free(p);
      puts("ok");
    } else if (!strcmp(tok[0], "feedrep") && n == 3 && cl && !dead) {
      long k, i, reps = atol(tok[2]); unsigned char *p = hexarg(tok[1], &k);
      if (!p || reps < 0 || reps > 4000000 || k * reps > (64L << 20)) { free(p); puts("bad-op"); continue; }
      for (i = 0; i < reps; i++) vh_buf_add(&srvb, p, (size_t)k);
      free(p);
      puts("ok");
    } else if (!strcmp(tok[0], "play") && n >= 2 && cl && !dead && !play_mode) {
      char path[64] = "/tmp/c07playXXXXXX"; int fd = mkstemp(path), i, bad = 0; FILE *f;
      static const unsigned char tv0[sizeof(struct timeval)];
      if (fd < 0 || !(f = fdopen(fd, "wb"))) { puts("bad-op"); continue; }
      fwrite("vncLog0.0", 1, 9, f);
      for (i = 1; i < n; i++) {
        long k; unsigned char *p = hexarg(tok[i], &k);
        if (!p) { bad = 1; break; }
        if (i > 1) fwrite(tv0, 1, sizeof tv0, f);          /* HandleRFBServerMessage reads a timestamp first */
        fwrite(p, 1, (size_t)k, f); free(p);
      }
      fclose(f);
      if (bad) { unlink(path); puts("bad-op"); continue; }
      strcpy(play_path, path);
      free(cl->serverHost); cl->serverHost = strdup(path); cl->serverPort = -1; cl->listenSpecified = FALSE;
      close(cl->sock); cl->sock = RFB_INVALID_SOCKET; cfd = -1; play_mode = 1;
      puts("ok");
    } else if (!strcmp(tok[0], "msg") && n == 2 && cl && !dead) {
      long k; unsigned char *p = hexarg(tok[1], &k); rfbBool r;
      if (!p) { puts("bad-op"); continue; }
      vh_buf_add(&srvb, p, (size_t)k); free(p);
      guard_on(); r = HandleRFBServerMessage(cl); guard_off();
      if (!r) dead = 1;
      put_state("msg", r);
    } else if (!strcmp(tok[0], "drain") && n == 1 && cl && !dead) {
      int calls = 0; rfbBool r = TRUE;
      while (r && (SRV_LEFT > 0 || cl->buffered > 0) && calls < 10000) {
        guard_on(); r = HandleRFBServerMessage(cl); guard_off(); calls++;
      }
      if (!r) dead = 1;
      printf("calls=%d ", calls);
      put_state("drain", r);
    } else if (!strcmp(tok[0], "fill") && n == 6 && cl && !dead && cl->frameBuffer) {
      cl->GotFillRect(cl, atoi(tok[1]), atoi(tok[2]), atoi(tok[3]), atoi(tok[4]), (uint32_t)strtoul(tok[5], NULL, 10));
      put_state("fill", 1);
    } else if (!strcmp(tok[0], "copy") && n == 7 && cl && !dead && cl->frameBuffer) {
      cl->GotCopyRect(cl, atoi(tok[1]), atoi(tok[2]), atoi(tok[3]), atoi(tok[4]), atoi(tok[5]), atoi(tok[6]));
      put_state("copy", 1);
    } else if (!strcmp(tok[0], "bitmap") && n == 6 && cl && !dead && cl->frameBuffer) {
      long k; unsigned char *p = hexarg(tok[5], &k);
      int w = atoi(tok[3]), h = atoi(tok[4]);
      if (!p || k != (long)w * h * (cl->format.bitsPerPixel / 8)) { free(p); puts("bad-op"); continue; }
      cl->GotBitmap(cl, p, atoi(tok[1]), atoi(tok[2]), w, h); free(p);
      put_state("bitmap", 1);
    } else if (!strcmp(tok[0], "req") && n == 6 && cl && !dead) {
      rfbBool r = SendFramebufferUpdateRequest(cl, atoi(tok[1]), atoi(tok[2]), atoi(tok[3]), atoi(tok[4]), atoi(tok[5]));
      printf("req %s out=", r ? "T" : "F"); vh_puthex(stdout, out.p, out.n); putchar('\n');
    } else if (!strcmp(tok[0], "fbdump") && n == 1 && cl && !dead && cl->frameBuffer) {
      vh_puthex(stdout, cl->frameBuffer, fb_bytes()); putchar('\n');
    } else if (!strcmp(tok[0], "stats") && n == 1) {
      printf("reads=%ld selects=%ld eagain=%ld allocs=%d\n", nreads, nselects, neagain, fb_allocs);
    } else if (!strcmp(tok[0], "lzo") && n == 2) {
      long k; unsigned char *p = hexarg(tok[1], &k);
      static lzo_align_t wrk[(LZO1X_1_MEM_COMPRESS + sizeof(lzo_align_t) - 1) / sizeof(lzo_align_t)];
      unsigned char *o; lzo_uint ol;
      if (!p) { puts("bad-op"); continue; }
      o = (unsigned char *)malloc((size_t)k + k / 16 + 64 + 3); ol = 0;
      lzo_init();
      if (lzo1x_1_compress(p, (lzo_uint)k, o, &ol, wrk) != LZO_E_OK) puts("bad-op");
      else { vh_puthex(stdout, o, ol); putchar('\n'); }
      free(o); free(p);
    } else if (!strcmp(tok[0], "jpegrgb") && n == 5) {
      int w = atoi(tok[1]), h = atoi(tok[2]), q = atoi(tok[3]); unsigned long sz = 0; long k;
      unsigned char *rgb = hexarg(tok[4], &k), *o; tjhandle tj = tjInitCompress();
      if (!tj || !rgb || w <= 0 || h <= 0 || k != (long)w * h * 3) { free(rgb); puts("bad-op"); continue; }
      o = (unsigned char *)malloc(TJBUFSIZE(w, h));
      if (tjCompress(tj, rgb, w, w * 3, h, 3, o, &sz, TJ_444, q, 0) == -1) puts("bad-op");
      else { vh_puthex(stdout, o, sz); putchar('\n'); }
      tjDestroy(tj); free(rgb); free(o);
    } else if (!strcmp(tok[0], "jpeg") && n == 4) {
      /* helper for the generator: JPEG image w h of pseudo-random smooth content (seed) */
      int w = atoi(tok[1]), h = atoi(tok[2]), x, y; unsigned long sz = 0;
      unsigned char *rgb, *o; tjhandle tj = tjInitCompress();
      if (!tj || w <= 0 || h <= 0 || (long)w * h > (1 << 24)) { puts("bad-op"); continue; }
      rgb = (unsigned char *)malloc((size_t)w * h * 3); o = (unsigned char *)malloc(TJBUFSIZE(w, h));
      vh_srand((uint64_t)atoi(tok[3]));
      { unsigned r0 = (unsigned)vh_rand(), g0 = (unsigned)vh_rand();
        for (y = 0; y < h; y++) for (x = 0; x < w; x++) {
          rgb[(y * w + x) * 3] = (unsigned char)(r0 + x); rgb[(y * w + x) * 3 + 1] = (unsigned char)(g0 + y);
          rgb[(y * w + x) * 3 + 2] = (unsigned char)(x + y); } }
      if (tjCompress(tj, rgb, w, w * 3, h, 3, o, &sz, TJ_420, 60, 0) == -1) puts("bad-op");
      else { vh_puthex(stdout, o, sz); putchar('\n'); }
      tjDestroy(tj); free(rgb); free(o);
    } else if (!strcmp(tok[0], "end") && n == 1) {
      if (cl) {
        unsigned char *own = (fb_mode == 0) ? cl->frameBuffer : NULL;
        int fd = peerfd;
        if (play_mode && cl->vncRec && cl->vncRec->file) { fclose(cl->vncRec->file); cl->vncRec->file = NULL; }
        guard_on(); rfbClientCleanup(cl); guard_off();
        cl = NULL; cfd = -1;
        if (own) free(own); else if (fb_base) free(fb_base);
        fb_base = NULL;
        if (fd >= 0) close(fd);
      }
      dead = 1;
      puts("ok");
    } else puts("bad-op");
    fflush(stdout);
  }
  if (cl) {   /* tidy up so that LeakSanitizer only reports what the library leaked */
    unsigned char *own = (fb_mode == 0) ? cl->frameBuffer : NULL;
    rfbClientCleanup(cl); cl = NULL; cfd = -1;
    if (own) free(own); else if (fb_base) free(fb_base);
  }
  free(encstr);
  return 0;
}
