/* C20 harness: the built-in HTTP server (src/libvncserver/httpd.c) on a real screen, in-process.
 *
 * No TCP: httpListenSock / httpListen6Sock are AF_UNIX listening sockets inside the sandbox, the
 * HTTP client is an AF_UNIX stream socket connected to one of them, so the whole real path
 * rfbProcessEvents -> rfbHttpCheckFds -> select/accept/rfbSetNonBlocking -> httpProcessInput runs.
 * Link-level interposition (definitions below win over libc/libasan for the statically linked
 * library code): read (deterministic short reads on the server's HTTP socket = segmentation),
 * fopen/open/openat (log of every path the process opens while a request is served),
 * select (virtual wait accounting), getnameinfo (AF_UNIX peers have no numeric host).
 *
 * ops (one observation line each; see Driver/C20.lean for the model side):
 *   boot <plain|busy>                 (first op, optional) start-up variant: busy = the RFB port is occupied,
 *                                     rfbInitSockets leaves early; the HTTP server comes up all the same
 *   hook <accept|refuse>              what the application's newClientHook answers (proxy hand-over)
 *   dir <n> <listener 4|6>            sandbox www directory whose path is exactly n bytes long
 *   mkdir <hexrel> | file <hexrel> <hexcontent>     populate the sandbox (relative to www)
 *   cfg <proxy 0|1> <port>            httpEnableProxyConnect, screen->port
 *   req <hex> <cuts|-> <keep|half|full>   one burst on the current (or a fresh) connection:
 *        cuts = ascending byte offsets at which the server's read() returns short;
 *        keep: peer stays open; half: shutdown(SHUT_WR) after the burst; full: close() after it
 *        (end "reset": the read after the burst fails with ECONNRESET; 5th token "race": a second client
 *        connects before the server looks at the burst, one rfbHttpCheckFds call handles both)
 *   env <hexdesktop> <hexuser|none>   screen->desktopName and $USER
 *   listener <4|6>                    which listener later connections use
 *   newconn                           a second client connects while the first is still open
 *   hangup                            client closes the current connection
 *   paint <hexbyte> <n>               fill n bytes of (dead) stack with a byte before the next req
 *   slowreq <hex>                     (harness only) request from a peer that never reads; virtual waiting
 */
#define _GNU_SOURCE
#include <dlfcn.h>
#include <sys/un.h>
#include <sys/stat.h>
#include <sys/select.h>
#include <netdb.h>
#include <stdarg.h>
#include <ftw.h>
#include <signal.h>
#include <limits.h>
#include "sess.h"

static rfbScreenInfoPtr scr;
static char base[256], www[4096], wwwreal[4096];
static int lsock4 = -1, lsock6 = -1, use6 = 0;
static char lpath4[300], lpath6[300];
static int hc = -1;                      /* client end of the HTTP connection */

/* ---------------------------------------------------------------- interposition */
static int logging = 0;
#define MAXLOG 64
static char *oplog[MAXLOG]; static int noplog = 0;
static void log_path(const char *p) {
  if (!logging || !p) return;
  if (noplog < MAXLOG) oplog[noplog++] = strdup(p);
}

FILE *fopen(const char *path, const char *mode) {
  static FILE *(*real)(const char *, const char *);
  if (!real) real = (FILE *(*)(const char *, const char *))dlsym(RTLD_NEXT, "fopen");
  log_path(path);
  return real(path, mode);
}
FILE *fopen64(const char *path, const char *mode) {
  static FILE *(*real)(const char *, const char *);
  if (!real) real = (FILE *(*)(const char *, const char *))dlsym(RTLD_NEXT, "fopen64");
  log_path(path);
  return real(path, mode);
}
int open(const char *path, int flags, ...) {
  static int (*real)(const char *, int, ...);
  mode_t m = 0; va_list ap;
  if (!real) real = (int (*)(const char *, int, ...))dlsym(RTLD_NEXT, "open");
  va_start(ap, flags); if (flags & (O_CREAT | O_TMPFILE)) m = va_arg(ap, mode_t); va_end(ap);
  log_path(path);
  return real(path, flags, m);
}
int open64(const char *path, int flags, ...) {
  static int (*real)(const char *, int, ...);
  mode_t m = 0; va_list ap;
  if (!real) real = (int (*)(const char *, int, ...))dlsym(RTLD_NEXT, "open64");
  va_start(ap, flags); if (flags & (O_CREAT | O_TMPFILE)) m = va_arg(ap, mode_t); va_end(ap);
  log_path(path);
  return real(path, flags, m);
}
int openat(int dfd, const char *path, int flags, ...) {
  static int (*real)(int, const char *, int, ...);
  mode_t m = 0; va_list ap;
  if (!real) real = (int (*)(int, const char *, int, ...))dlsym(RTLD_NEXT, "openat");
  va_start(ap, flags); if (flags & (O_CREAT | O_TMPFILE)) m = va_arg(ap, mode_t); va_end(ap);
  log_path(path);
  return real(dfd, path, flags, m);
}

/* read plan: sizes of the pieces in which the current burst is handed to the server */
#define MAXPLAN 256
static size_t plan[MAXPLAN]; static int nplan = 0, iplan = 0, inject_reset = 0;
ssize_t read(int fd, void *buf, size_t count) {
  static ssize_t (*real)(int, void *, size_t);
  if (!real) real = (ssize_t (*)(int, void *, size_t))dlsym(RTLD_NEXT, "read");
  if (scr && fd >= 0 && fd == scr->httpSock && logging) {
    while (iplan < nplan && plan[iplan] == 0) iplan++;
    if (iplan < nplan && count > 0) {
      size_t k = plan[iplan] < count ? plan[iplan] : count;
      ssize_t r = real(fd, buf, k);
      if (r > 0) plan[iplan] -= (size_t)r;
      return r;
    }
    if (inject_reset && count > 0) { errno = ECONNRESET; return -1; }   /* a read error other than EAGAIN */
  }
  return real(fd, buf, count);
}

/* closes of descriptors that are not open (a second close of the same socket) while a request is served */
static int badclose = 0, count_closes = 0;
int close(int fd) {
  static int (*real)(int);
  int r;
  if (!real) real = (int (*)(int))dlsym(RTLD_NEXT, "close");
  r = real(fd);
  if (r < 0 && errno == EBADF && count_closes) badclose++;
  return r;
}

static long long vwait_us = 0;
static int virtual_wsel = 0, vsel_count = 0, vsel_fd = -1;
int select(int nfds, fd_set *r, fd_set *w, fd_set *e, struct timeval *tv) {
  static int (*real)(int, fd_set *, fd_set *, fd_set *, struct timeval *);
  long long want = tv ? (long long)tv->tv_sec * 1000000 + tv->tv_usec : -1;
  int n;
  if (!real) real = (int (*)(int, fd_set *, fd_set *, fd_set *, struct timeval *))dlsym(RTLD_NEXT, "select");
  /* virtual time for a peer that does not read: "wait until writable" on the HTTP socket times out at once */
  if (virtual_wsel && w && !r && vsel_fd >= 0 && vsel_fd < nfds && FD_ISSET(vsel_fd, w) && want > 0) {
    FD_ZERO(w); if (e) FD_ZERO(e);
    vwait_us += want; vsel_count++;
    return 0;
  }
  n = real(nfds, r, w, e, tv);
  if (n == 0 && want > 0 && logging) vwait_us += want;
  return n;
}

int getnameinfo(const struct sockaddr *sa, socklen_t salen, char *host, socklen_t hostlen,
                char *serv, socklen_t servlen, int flags) {
  (void)sa; (void)salen; (void)flags;
  if (host && hostlen) snprintf(host, hostlen, "unix-peer");
  if (serv && servlen) serv[0] = 0;
  return 0;
}

/* ---------------------------------------------------------------- sandbox */
static int rm_cb(const char *p, const struct stat *sb, int t, struct FTW *f) {
  (void)sb; (void)t; (void)f; remove(p); return 0;
}
static void cleanup(void) { if (base[0]) nftw(base, rm_cb, 32, FTW_DEPTH | FTW_PHYS); }

static int mkdirs(const char *path) {
  char tmp[4096]; size_t i, n = strlen(path);
  if (n >= sizeof tmp) return -1;
  memcpy(tmp, path, n + 1);
  for (i = 1; i <= n; i++) {
    if (tmp[i] == '/' || tmp[i] == 0) {
      char c = tmp[i]; tmp[i] = 0;
      if (mkdir(tmp, 0755) < 0 && errno != EEXIST) return -1;
      tmp[i] = c;
    }
  }
  return 0;
}

static int put_file(const char *path, const unsigned char *d, size_t n) {
  int fd = open(path, O_WRONLY | O_CREAT | O_TRUNC, 0644);
  size_t off = 0;
  if (fd < 0) return -1;
  while (off < n) { ssize_t w = write(fd, d + off, n - off); if (w <= 0) { close(fd); return -1; } off += (size_t)w; }
  close(fd);
  return 0;
}

static int listen_unix(const char *path) {
  struct sockaddr_un a; int s = socket(AF_UNIX, SOCK_STREAM, 0);
  if (s < 0) return -1;
  memset(&a, 0, sizeof a); a.sun_family = AF_UNIX;
  if (strlen(path) >= sizeof a.sun_path) return -1;
  strcpy(a.sun_path, path);
  if (bind(s, (struct sockaddr *)&a, sizeof a) < 0 || listen(s, 8) < 0) { close(s); return -1; }
  return s;
}
static int connect_unix(const char *path) {
  struct sockaddr_un a; int s = socket(AF_UNIX, SOCK_STREAM, 0);
  int sz = 1 << 20;
  if (s < 0) return -1;
  memset(&a, 0, sizeof a); a.sun_family = AF_UNIX; strcpy(a.sun_path, path);
  setsockopt(s, SOL_SOCKET, SO_SNDBUF, &sz, sizeof sz);
  setsockopt(s, SOL_SOCKET, SO_RCVBUF, &sz, sizeof sz);
  if (connect(s, (struct sockaddr *)&a, sizeof a) < 0) { close(s); return -1; }
  fcntl(s, F_SETFL, fcntl(s, F_GETFL) | O_NONBLOCK);
  return s;
}

/* directory path of exactly n bytes below base */
static int make_www(size_t n) {
  size_t L = strlen(base), rem, pos;
  if (n < L + 2 || n >= sizeof www) return -1;
  memcpy(www, base, L); pos = L; rem = n - L;
  while (rem > 201) { www[pos++] = '/'; memset(www + pos, 'd', 100); pos += 100; rem -= 101; }
  www[pos++] = '/'; memset(www + pos, 'w', rem - 1); pos += rem - 1; www[pos] = 0;
  if (mkdirs(www) < 0) return -1;
  if (!realpath(www, wwwreal)) return -1;
  return 0;
}

/* ---------------------------------------------------------------- RFB witness */
static vh_conn wit; static int wit_ok = 0;
static int newclients = 0;
static int refuse_clients = 0;
static enum rfbNewClientAction on_new_client(rfbClientPtr cl) {
  (void)cl; newclients++;
  return refuse_clients ? RFB_CLIENT_REFUSE : RFB_CLIENT_ACCEPT;
}

static int witness_served(void) {
  unsigned char req[10] = { 3, 0, 0, 0, 0, 0, 0, 16, 0, 8 };
  vh_conn *arr[1]; int i;
  if (!wit_ok || !wit.cl) return 0;
  arr[0] = &wit;
  vh_buf_reset(&wit.out);
  vh_send(&wit, req, sizeof req);
  for (i = 0; i < 4; i++) { rfbProcessEvents(scr, 0); vh_drain(&wit); if (wit.out.n >= 4 + 12 + 16 * 8 * 4) break; }
  if (!wit.cl || wit.out.n < 4 + 12 + 16 * 8 * 4 || wit.out.p[0] != 0) return 0;
  vh_buf_reset(&wit.out);
  return 1;
}

/* ---------------------------------------------------------------- HTTP client side */
static vh_buf hout;
static int http_drain(void) {   /* 1 when the server end is gone (EOF or reset) */
  unsigned char tmp[65536];
  if (hc < 0) return 1;
  for (;;) {
    ssize_t n = read(hc, tmp, sizeof tmp);
    if (n > 0) { vh_buf_add(&hout, tmp, (size_t)n); continue; }
    if (n == 0) return 1;
    if (errno == EINTR) continue;
    if (errno == EAGAIN || errno == EWOULDBLOCK) return 0;
    return 1;
  }
}

static void http_connect(void) {
  hc = connect_unix(use6 ? lpath6 : lpath4);
  if (hc >= 0) rfbProcessEvents(scr, 0);     /* rfbHttpCheckFds: accept + non-blocking */
}

static void print_paths(void) {
  int i; size_t wl = strlen(www);
  const char *verdict = "-";
  printf("open=");
  if (!noplog) putchar('-');
  for (i = 0; i < noplog; i++) {
    const char *p = oplog[i]; char rp[PATH_MAX];
    if (i) putchar(',');
    if (!strncmp(p, www, wl)) { putchar('W'); vh_puthex(stdout, (const unsigned char *)p + wl, strlen(p + wl)); }
    else { putchar('A'); vh_puthex(stdout, (const unsigned char *)p, strlen(p)); }
    /* where did the kernel really go?  (after the fact; ENOENT etc. = nowhere) */
    if (realpath(p, rp)) {
      size_t rl = strlen(wwwreal);
      int in = !strncmp(rp, wwwreal, rl) && (rp[rl] == '/' || rp[rl] == 0);
      if (!in) verdict = "out"; else if (verdict[0] == '-') verdict = "in";
    }
    free(oplog[i]);
  }
  noplog = 0;
  printf(" real=%s", verdict);
}

static void __attribute__((noinline)) paint_stack(int byte, size_t n) {
  volatile unsigned char *p = (volatile unsigned char *)alloca(n);
  size_t i;
  for (i = 0; i < n; i++) p[i] = (unsigned char)byte;
}

static int paint_byte; static size_t paint_n;
/* resource oracle: descriptors open in the process beyond the baseline and the live HTTP connection */
static int count_fds(void) { int i, n = 0; for (i = 0; i < 1024; i++) if (fcntl(i, F_GETFD) != -1) n++; return n; }
static int fd_baseline = -1;
static int fd_leak(void) {
  return count_fds() - fd_baseline - (hc >= 0 ? 1 : 0) - (scr->httpSock != RFB_INVALID_SOCKET ? 1 : 0);
}
/* watchdog: one request must not keep the (single-threaded) server busy for longer than this, real time */
#define WATCHDOG_S 25
static void on_alarm(int sig) {
  static const char m[] = "HANG: the server did not return from serving one HTTP request within 25 s\n";
  (void)sig;
  if (write(2, m, sizeof m - 1) < 0) {}
  if (write(1, "hang\n", 5) < 0) {}
  _exit(4);
}
static unsigned char reqbuf[1 << 18];

/* Start-up.  mode 0: the shared vh_screen (no RFB listeners at all, rfbInitServer runs to its end).
   mode 1 ("boot busy"): the application asks for an RFB port that another socket already occupies, so
   rfbInitSockets() leaves through its "cannot listen" return; the HTTP server is brought up all the same
   (as rfbHttpInitSockets would).  The harness itself never touches the disposition of SIGPIPE: that the
   process survives a peer that goes away is the library's job (screen->ignoreSIGPIPE). */
static int booted = 0, busy_sock = -1;
static int boot(int mode) {
  if (booted) return -1;
  booted = 1;
  setenv("USER", "vuser", 1);
  if (mode == 0) scr = vh_screen(16, 8, 4);
  else {
    int argc = 1; char *argv[] = { (char *)"verif", NULL };
    struct sockaddr_in a; socklen_t al = sizeof a; int port = 0;
    busy_sock = socket(AF_INET, SOCK_STREAM, 0);
    memset(&a, 0, sizeof a); a.sin_family = AF_INET; a.sin_addr.s_addr = htonl(INADDR_LOOPBACK);
    if (busy_sock >= 0 && bind(busy_sock, (struct sockaddr *)&a, sizeof a) == 0 && listen(busy_sock, 1) == 0 &&
        getsockname(busy_sock, (struct sockaddr *)&a, &al) == 0) port = ntohs(a.sin_port);
    if (port <= 0) { fprintf(stderr, "boot busy: no loopback TCP socket available\n"); return -1; }
    if (!getenv("VH_VERBOSE")) { rfbLog = vh_quiet_log; rfbErr = vh_quiet_log; }
    scr = rfbGetScreen(&argc, argv, 16, 8, 8, 3, 4);
    if (!scr) return -1;
    scr->frameBuffer = (char *)calloc(16 * 8, 4);
    scr->port = port; scr->ipv6port = 0; scr->autoPort = FALSE; scr->httpPort = 0; scr->http6Port = 0;
    scr->httpDir = NULL; scr->deferUpdateTime = 0; scr->maxClientWait = 100;
    rfbInitServer(scr);
    if (scr->listenSock != RFB_INVALID_SOCKET) { fprintf(stderr, "boot busy: the RFB listener came up\n"); return -1; }
  }
  if (!scr) return -1;
  scr->desktopName = "verif desk";
  strcpy(scr->thisHost, "vhost");
  scr->newClientHook = on_new_client;
  snprintf(lpath4, sizeof lpath4, "%s/l4", base); snprintf(lpath6, sizeof lpath6, "%s/l6", base);
  lsock4 = listen_unix(lpath4); lsock6 = listen_unix(lpath6);
  if (lsock4 < 0 || lsock6 < 0) { fprintf(stderr, "cannot listen in %s\n", base); return -1; }
  if (vh_connect_pre(scr, &wit, "RFB 003.008\n", 12) == 0 && vh_handshake_none(scr, &wit, 1) == 0) wit_ok = 1;
  newclients = 0;
  fd_baseline = count_fds();
  return 0;
}

int main(void) {
  char *line, *tok[8];
  const char *root = getenv("VERIF_C20_TMP");
  signal(SIGALRM, on_alarm);
  if (!root || !*root) root = "/tmp";
  snprintf(base, sizeof base, "%s/verif-c20-%08d", root, (int)getpid());
  if (mkdirs(base) < 0) { fprintf(stderr, "cannot create %s\n", base); return 2; }
  atexit(cleanup);
  { char s[400]; snprintf(s, sizeof s, "%s/secret", base); put_file(s, (const unsigned char *)"TOPSECRET\n", 10); }

  while ((line = vh_readline())) {
    int n = vh_split(line, tok, 8);
    if (n == 0 || tok[0][0] == '#') continue;
    if (!strcmp(tok[0], "boot") && n == 2) {
      if (boot(!strcmp(tok[1], "busy")) < 0) { fprintf(stderr, "boot failed\n"); return 2; }
      puts("ok");
      goto next;
    }
    if (!booted && boot(0) < 0) { fprintf(stderr, "no screen\n"); return 2; }
    if (!strcmp(tok[0], "hook") && n == 2) {
      refuse_clients = !strcmp(tok[1], "refuse");
      puts("ok");
    } else if (!strcmp(tok[0], "dir") && n == 3) {
      if (scr->httpDir || make_www((size_t)atol(tok[1])) < 0) { puts("bad-op"); goto next; }
      use6 = atoi(tok[2]) == 6;
      scr->httpDir = www;
      scr->httpListenSock = lsock4; scr->httpListen6Sock = lsock6;
      { /* the HTTP server accepts from now on: is the process protected against SIGPIPE? */
        struct sigaction sa; sigaction(SIGPIPE, NULL, &sa);
        printf("ok sigpipe=%s\n", sa.sa_handler == SIG_IGN ? "ign" : sa.sa_handler == SIG_DFL ? "dfl" : "handler"); }
    } else if (!strcmp(tok[0], "mkdir") && n == 2 && scr->httpDir) {
      char p[8192]; long k = vh_unhex(tok[1], reqbuf, 2048);
      if (k <= 0) { puts("bad-op"); goto next; }
      reqbuf[k] = 0; snprintf(p, sizeof p, "%s/%s", www, (char *)reqbuf);
      puts(mkdirs(p) == 0 ? "ok" : "bad-op");
    } else if (!strcmp(tok[0], "file") && n == 3 && scr->httpDir) {
      char p[8192]; long k = vh_unhex(tok[1], reqbuf, 2048), m;
      static unsigned char content[1 << 18];
      if (k <= 0) { puts("bad-op"); goto next; }
      reqbuf[k] = 0; snprintf(p, sizeof p, "%s/%s", www, (char *)reqbuf);
      m = vh_unhex(tok[2], content, sizeof content);
      puts(m >= 0 && put_file(p, content, (size_t)m) == 0 ? "ok" : "bad-op");
    } else if (!strcmp(tok[0], "cfg") && n == 3) {
      scr->httpEnableProxyConnect = atoi(tok[1]) ? TRUE : FALSE;
      scr->port = atoi(tok[2]);
      puts("ok");
    } else if (!strcmp(tok[0], "env") && n == 3) {
      /* desktop name and $USER as the substitution loop sees them ("none" = USER unset) */
      static char desk[4096], usr[4096];
      long k = vh_unhex(tok[1], (unsigned char *)desk, sizeof desk - 1);
      if (k < 0 || memchr(desk, 0, (size_t)k)) { puts("bad-op"); goto next; }
      desk[k] = 0; scr->desktopName = desk;
      if (!strcmp(tok[2], "none")) unsetenv("USER");
      else {
        long m = vh_unhex(tok[2], (unsigned char *)usr, sizeof usr - 1);
        if (m < 0 || memchr(usr, 0, (size_t)m)) { puts("bad-op"); goto next; }
        usr[m] = 0; setenv("USER", usr, 1);
      }
      puts("ok");
    } else if (!strcmp(tok[0], "listener") && n == 2) {
      use6 = atoi(tok[1]) == 6;
      puts("ok");
    } else if (!strcmp(tok[0], "paint") && n == 3) {
      /* applied right before the next request is processed */
      paint_byte = (int)strtol(tok[1], NULL, 16); paint_n = (size_t)atol(tok[2]);
      if (paint_n > (1 << 20)) { paint_n = 0; puts("bad-op"); goto next; }
      puts("ok");
    } else if (!strcmp(tok[0], "req") && (n == 4 || (n == 5 && !strcmp(tok[4], "race"))) && scr->httpDir) {
      long len = vh_unhex(tok[1], reqbuf, sizeof reqbuf);
      int endk = !strcmp(tok[3], "keep") ? 0 : !strcmp(tok[3], "half") ? 1 : !strcmp(tok[3], "full") ? 2 :
                 !strcmp(tok[3], "reset") ? 3 : -1;
      int race = n == 5, hc2 = -1;
      int gone, i, nc0, handed, full = 0;
      size_t prev = 0;
      if (len < 0 || endk < 0 || (race && endk != 0)) { puts("bad-op"); goto next; }
      nplan = 0; iplan = 0;
      if (strcmp(tok[2], "-")) {
        char *p = tok[2];
        while (*p && nplan < MAXPLAN - 1) {
          size_t c = (size_t)strtoul(p, &p, 10);
          if (c < prev || c > (size_t)len) { nplan = -1; break; }
          plan[nplan++] = c - prev; prev = c;
          if (*p == ',') p++; else if (*p) { nplan = -1; break; }
        }
        if (nplan < 0) { puts("bad-op"); nplan = 0; goto next; }
      }
      plan[nplan++] = (size_t)len - prev;
      if (hc < 0) http_connect();
      if (hc < 0) { puts("no-conn"); goto next; }
      vh_buf_reset(&hout);
      { size_t off = 0;
        while (off < (size_t)len) {
          ssize_t w = write(hc, reqbuf + off, (size_t)len - off);
          if (w < 0) { if (errno == EINTR) continue; break; }
          off += (size_t)w;
        }
        if (off != (size_t)len) { puts("short-write"); goto next; } }
      if (endk == 1) shutdown(hc, SHUT_WR);
      if (endk == 2) { close(hc); hc = -1; full = 1; }
      inject_reset = endk == 3;
      /* race: a second client connects before the server has looked at this burst: one rfbHttpCheckFds
         call sees input on the old connection AND a pending accept */
      if (race) { hc2 = connect_unix(use6 ? lpath6 : lpath4); if (hc2 < 0) { puts("no-conn"); goto next; } }
      if (paint_n) { paint_stack(paint_byte, paint_n); paint_n = 0; }
      nc0 = newclients; vwait_us = 0; noplog = 0; logging = 1;
      /* a server that keeps writing (spinning substitution loop) fills the socket: its wait for
         writability is virtual, so the call comes back and the wait shows up in `wait=`; anything that
         still does not come back is ended by the watchdog */
      virtual_wsel = 1; vsel_fd = scr->httpSock; vsel_count = 0;
      badclose = 0; count_closes = 1;
      alarm(WATCHDOG_S);
      rfbProcessEvents(scr, 0);
      alarm(0);
      virtual_wsel = 0; vsel_fd = -1;
      logging = 0; nplan = iplan = 0; inject_reset = 0;
      for (i = 0; i < 2; i++) rfbProcessEvents(scr, 0);
      count_closes = 0;
      gone = full ? 1 : http_drain();
      handed = newclients > nc0 && !refuse_clients;
      print_paths();
      if (full) printf(" resp=- len=0 hash=0 bhash=0 par=-");
      else {
        size_t sl = 0;
        if (handed) {   /* compare the proxy answer and the RFB greeting only, not the RFB dialogue after it */
          size_t k; for (k = 0; k + 4 <= hout.n; k++) if (!memcmp(hout.p + k, "\r\n\r\n", 4)) break;
          if (k + 4 + 12 < hout.n) hout.n = k + 4 + 12;
        }
        while (sl < hout.n && hout.p[sl] != '\r' && hout.p[sl] != '\n') sl++;
        printf(" resp="); vh_puthex(stdout, hout.p, sl);
        printf(" len=%zu hash=%016llx", hout.n, (unsigned long long)vh_fnv(hout.p, hout.n));
        { size_t k, a, b; int found = 0;      /* body = after the first blank line; par = \x01..\x02 region */
          for (k = 0; k + 4 <= hout.n; k++) if (!memcmp(hout.p + k, "\r\n\r\n", 4)) { found = 1; break; }
          if (!found) printf(" bhash=0 par=-");
          else {
            k += 4;
            printf(" bhash=%016llx par=", (unsigned long long)vh_fnv(hout.p + k, hout.n - k));
            for (a = k; a < hout.n && hout.p[a] != 1; a++) ;
            for (b = a; b < hout.n && hout.p[b] != 2; b++) ;
            if (a < hout.n && b < hout.n) { putchar('P'); vh_puthex(stdout, hout.p + a + 1, b - a - 1); } else putchar('-');
          } }
      }
      printf(" conn=%s", handed ? "handed" : race ? (gone ? "closed" : "open") :
             (scr->httpSock == RFB_INVALID_SOCKET ? "closed" : "open"));
      printf(" peer=%s", full ? "-" : handed ? "open" : gone ? "eof" : "open");
      printf(" wait=%lld", vwait_us / 1000);
      if (race) {   /* the old connection is finished either way; the new one is the server's current one */
        if (hc >= 0) close(hc);
        hc = hc2;
        for (i = 0; i < 3; i++) rfbProcessEvents(scr, 0);
        printf(" new=%s", scr->httpSock == RFB_INVALID_SOCKET ? "closed" : "open");
      } else if (hc >= 0 && (gone || handed)) { close(hc); hc = -1; for (i = 0; i < 3; i++) rfbProcessEvents(scr, 0); }
      printf(" leak=%d badclose=%d", fd_leak(), badclose);
      printf(" rfb=%s\n", witness_served() ? "ok" : "dead");
    } else if (!strcmp(tok[0], "slowreq") && n == 2 && scr->httpDir) {
      /* a peer that sends a request and never reads the answer; the server's send buffer is minimal.
         Waiting is virtual (see select above): vstall = time rfbWriteExact would have slept. */
      long len = vh_unhex(tok[1], reqbuf, sizeof reqbuf);
      int i, one = 1;
      if (len < 0) { puts("bad-op"); goto next; }
      if (hc >= 0) { close(hc); hc = -1; for (i = 0; i < 2; i++) rfbProcessEvents(scr, 0); }
      http_connect();
      if (hc < 0 || scr->httpSock < 0) { puts("no-conn"); goto next; }
      setsockopt(scr->httpSock, SOL_SOCKET, SO_SNDBUF, &one, sizeof one);
      if (write(hc, reqbuf, (size_t)len) != len) { puts("short-write"); goto next; }
      vwait_us = 0; vsel_count = 0; vsel_fd = scr->httpSock; virtual_wsel = 1; noplog = 0; logging = 1;
      alarm(WATCHDOG_S);
      rfbProcessEvents(scr, 0);
      alarm(0);
      logging = 0; virtual_wsel = 0; vsel_fd = -1;
      for (i = 0; i < noplog; i++) free(oplog[i]);
      printf("vstall=%lld sel=%d opened=%d conn=%s", vwait_us / 1000, vsel_count, noplog,
             scr->httpSock == RFB_INVALID_SOCKET ? "closed" : "open");
      noplog = 0;
      close(hc); hc = -1;
      for (i = 0; i < 2; i++) rfbProcessEvents(scr, 0);
      printf(" leak=%d", fd_leak());
      printf(" rfb=%s\n", witness_served() ? "ok" : "dead");
    } else if (!strcmp(tok[0], "newconn") && n == 1 && scr->httpDir) {
      int old = hc, gone, i;
      hc = connect_unix(use6 ? lpath6 : lpath4);
      if (hc < 0) { hc = old; puts("no-conn"); goto next; }
      for (i = 0; i < 2; i++) rfbProcessEvents(scr, 0);
      gone = 1;
      if (old >= 0) { int t = hc; hc = old; vh_buf_reset(&hout); gone = http_drain(); close(old); hc = t; }
      printf("old=%s conn=%s rfb=%s\n", gone ? "eof" : "open",
             scr->httpSock == RFB_INVALID_SOCKET ? "closed" : "open", witness_served() ? "ok" : "dead");
    } else if (!strcmp(tok[0], "hangup") && n == 1 && scr->httpDir) {
      int i;
      if (hc >= 0) { close(hc); hc = -1; }
      for (i = 0; i < 2; i++) rfbProcessEvents(scr, 0);
      printf("conn=%s rfb=%s\n", scr->httpSock == RFB_INVALID_SOCKET ? "closed" : "open",
             witness_served() ? "ok" : "dead");
    } else puts("bad-op");
  next:
    fflush(stdout);
  }
  if (hc >= 0) close(hc);
  return 0;
}
