/* C17 harness: server-side scaling on the real server code (scale.c, rfbserver.c, main.c).
 *
 * ops (one observation line per op; Driver/C17.lean answers the same script):
 *   screen W H F            F: 8m (colour-mapped 8 bpp) | 8 | 16 | 24 | 32   -> ok
 *   cursor                  (before the first client) give the screen a visible 7x7 cursor at (0,0): clients without
 *                           the `shape` flag get it painted into their updates (soft cursor)      -> ok
 *   client I NFS [ENC [cr] [shape]]  connect+handshake, SetEncodings [ENC (+CopyRect if `cr`) (+RichCursor if `shape`)
 *                           (+NewFBSize if NFS=1)], ENC: raw (default) |
 *                           corre | zlib | ultra (all decoded here; the number of rectangles announced in
 *                           every FramebufferUpdate header must be the number that follows)        -> ok
 *   newfb W H SEED          rfbNewFramebuffer: a new buffer of W x H (same pixel format) with pseudo-random
 *                           contents replaces the framebuffer (not on colour-mapped screens)       -> ok
 *   scale I V N             V: u (rfbSetScale, type 8) | p (PalmVNC, type 0xF), N 0..255
 *                           -> told I u W H | told I p DW DH BW BH | told I none | closed I
 *   geom                    -> geom W0xH0:ref W1xH1:ref ...  (screen first, then scaledScreenNext chain)
 *   cl I                    -> cl I WxH            (the client's scaledScreen; "self" flag if == screen)
 *   draw X Y W H SEED       pseudo-random pixels into the rectangle, then rfbMarkRectAsModified -> ok
 *   mark X1 Y1 X2 Y2        rfbMarkRectAsModified only                                        -> ok
 *   schedcopy X Y W H DX DY the application moves the pixels itself (same effect as `copy`), then calls
 *                           rfbScheduleCopyRect                                               -> ok
 *   copy X Y W H DX DY      rfbDoCopyRect: the rectangle (inside the screen, as is its source) becomes a
 *                           copy of the pixels at (-DX,-DY) from it                          -> ok
 *   req I INC X Y W H       FramebufferUpdateRequest (client = scaled coordinates), pump, decode
 *                           -> upd I [nfs=WxH] K ux,uy,uw,uh>x,y,w,h ...  (hook rect > wire rect)
 *   reqq I INC X Y W H      same, rectangles not printed                   -> updq I [nfs=WxH]
 *   pic I                   client picture vs. reference box filter of the CURRENT framebuffer
 *                           -> pic I <fnv> eq | pic I <fnv> DIFF x y got want
 *   picq I                  same comparison without the hash (used where the model cannot predict the
 *                           picture but the property demands equality) -> picq I eq | picq I DIFF ...
 *   sfb I                   fnv of the pixel values of the client's scaled framebuffer -> sfb I <fnv>
 *   ptr I X Y [MASK]        PointerEvent -> ptr I K m,x,y ...   (every ptrAddEvent call it caused, in order:
 *                           a flushed coalesced position first, then the event itself; K = 0 when the
 *                           motion was coalesced (deferPtrUpdateTime > 0, unchanged mask) or ignored)
 *   defer MS                screen->deferPtrUpdateTime = MS; MS = 0 also flushes (virtual time) what is
 *                           coalesced -> defer MS K id:m,x,y ...  (sorted by client id)
 *   ptrflush                advance the virtual clock past the defer time, run the event loop
 *                           -> ptrflush K id:m,x,y ...
 *   leave I                 close the connection, reap -> ok
 *   scalecut I V            send only the first 2 bytes of a SetScale message (variant V), then close:
 *                           the read-error arm of the handler; the client is reaped -> ok
 *   corr FW FH TW TH X Y W H   rfbScaledCorrection(from FWxFH, to TWxTH)      -> corr x y w h
 *   sx FW TW X / sy FH TH Y    ScaleX / ScaleY                                -> sx r
 *   relx LIM                exhaustive: ScaleX(x,fw,tw) == x*tw/fw for all 1<=fw,tw<=LIM, 0<=x<=LIM
 *                           -> relx LIM <count> <nbad> [first bad]
 *   relr N SEED             random 16-bit operands -> relr N <nbad> [first bad]
 *   corrsum LIM / corrrnd N SEED    fnv over rfbScaledCorrection results (1-D: fh=th=1), compared
 *                           with the model's software-float evaluation -> corrsum <fnv>
 * Any property-oracle failure detected here is printed with the word ORACLE in the line.
 */
#include "sess.h"
#include <rfb/rfbregion.h>
#include <time.h>
#include <sys/time.h>
#include <zlib.h>
#include "minilzo.h"

/* virtual clock: the library's gettimeofday() is real time plus an offset the harness advances
   (deterministic flush of coalesced pointer motion) */
static long long vclock_off_us = 0;
int gettimeofday(struct timeval *tv, void *tz) {
  struct timespec ts; long long us;
  (void)tz;
  clock_gettime(CLOCK_REALTIME, &ts);
  us = (long long)ts.tv_sec * 1000000LL + ts.tv_nsec / 1000 + vclock_off_us;
  if (tv) { tv->tv_sec = us / 1000000LL; tv->tv_usec = us % 1000000LL; }
  return 0;
}

extern int ScaleX(rfbScreenInfoPtr from, rfbScreenInfoPtr to, int x);
extern int ScaleY(rfbScreenInfoPtr from, rfbScreenInfoPtr to, int y);
extern void rfbScaledCorrection(rfbScreenInfoPtr from, rfbScreenInfoPtr to, int *x, int *y, int *w, int *h, const char *function);
extern void (*rfbVerifPreEncodeHook)(rfbClientPtr, sraRegionPtr, sraRegionPtr, int, int);

#define MAXC 8
#define MAXR 4096
typedef struct {
  int used, live, nfs;
  vh_conn c;
  int pw, ph;            /* size the client has been told (its picture) */
  uint32_t *pic;
  /* per-op logs */
  int nrect; int rect[MAXR][4];
  int nhook; int hook[MAXR][4];
  int told;              /* 0 none, 1 ultra, 2 palm */
  int tw[4];
  int gotnfs, nfsw, nfsh;
  int bad;               /* oracle failures seen while decoding */
  char badmsg[200];
  int enc;               /* preferred encoding asked for: 0 raw, 4 CoRRE, 6 Zlib, 9 Ultra */
  int cr;                /* CopyRect announced */
  int shape;             /* RichCursor announced (otherwise the server paints the cursor) */
  z_stream zs; int zinit;
} hcl;
static hcl cls[MAXC];
static rfbScreenInfoPtr scr;
static int SW, SH, BPP /* bytes */, MAPPED;
#define MAXPE 64
static int pe[MAXPE][4], npe;   /* ptrAddEvent log of the current op: client id, mask, x, y */

static hcl *of_client(rfbClientPtr cl) {
  int i;
  for (i = 0; i < MAXC; i++) if (cls[i].used && cls[i].c.cl == cl) return &cls[i];
  return NULL;
}
static void on_ptr(int mask, int x, int y, rfbClientPtr cl) {
  hcl *h = of_client(cl);
  if (npe < MAXPE) { pe[npe][0] = h ? (int)(h - cls) : -1; pe[npe][1] = mask; pe[npe][2] = x; pe[npe][3] = y; npe++; }
}
static void print_pe_sorted(void) {
  int id, k;
  printf(" %d", npe);
  for (id = -1; id < MAXC; id++) for (k = 0; k < npe; k++)
    if (pe[k][0] == id) printf(" %d:%d,%d,%d", id, pe[k][1], pe[k][2], pe[k][3]);
  putchar('\n');
}
static void pump_all(void);
static void timer_flush(void) {
  pump_all();                                   /* makes sure startPtrDeferring is armed */
  vclock_off_us += ((long long)scr->deferPtrUpdateTime + 1000) * 1000LL;
  pump_all();
}
static void hook(rfbClientPtr cl, sraRegionPtr upd, sraRegionPtr cpy, int dx, int dy) {
  hcl *h = of_client(cl); sraRectangleIterator *it; sraRect r;
  if (!h) return;
  for (it = sraRgnGetIterator(upd); sraRgnIteratorNext(it, &r);) {
    if (h->nhook < MAXR) { int *p = h->hook[h->nhook++]; p[0] = r.x1; p[1] = r.y1; p[2] = r.x2 - r.x1; p[3] = r.y2 - r.y1; }
  }
  sraRgnReleaseIterator(it);
}

static uint32_t getpix(const char *fb, int stride, int x, int y) {
  const unsigned char *p = (const unsigned char *)fb + (size_t)y * stride + (size_t)x * BPP;
  if (BPP == 1) return p[0];
  if (BPP == 2) return p[0] | (p[1] << 8);
  if (BPP == 3) return p[0] | (p[1] << 8) | (p[2] << 16);
  return p[0] | (p[1] << 8) | (p[2] << 16) | ((uint32_t)p[3] << 24);
}
static void putpix(char *fb, int stride, int x, int y, uint32_t v) {
  unsigned char *p = (unsigned char *)fb + (size_t)y * stride + (size_t)x * BPP;
  p[0] = v & 255; if (BPP >= 2) p[1] = (v >> 8) & 255; if (BPP >= 3) p[2] = (v >> 16) & 255; if (BPP == 4) p[3] = (v >> 24) & 255;
}
static uint64_t fnv_add(uint64_t h, uint32_t v, int nbytes) {
  int i; for (i = 0; i < nbytes; i++) { h ^= (v >> (8 * i)) & 255; h *= 1099511628211ull; } return h;
}

static void resize_pic(hcl *h, int w, int ht) {
  free(h->pic); h->pw = w; h->ph = ht;
  h->pic = (uint32_t *)calloc((size_t)(w > 0 ? w : 1) * (ht > 0 ? ht : 1), sizeof(uint32_t));
}
static unsigned rd16(const unsigned char *p) { return (p[0] << 8) | p[1]; }
static unsigned long rd32(const unsigned char *p) { return ((unsigned long)p[0] << 24) | (p[1] << 16) | (p[2] << 8) | p[3]; }

static uint32_t rdpix(const unsigned char *q) {
  uint32_t v = q[0]; if (BPP >= 2) v |= q[1] << 8; if (BPP >= 3) v |= q[2] << 16; if (BPP == 4) v |= (uint32_t)q[3] << 24;
  return v;
}
static void oracle_fail(hcl *h, const char *fmt, long a, long b) {
  if (!h->bad) snprintf(h->badmsg, sizeof h->badmsg, fmt, a, b);
  h->bad++;
}
/* payload size of one rectangle; -1: not yet complete, -2: unknown encoding */
static long rect_payload(const unsigned char *q, size_t avail, unsigned w, unsigned ht, long enc) {
  if (enc == 0) return (long)w * ht * BPP;
  if (enc == -223) return 0;
  if (enc == 1) return 4;
  if (enc == -239) return (long)w * ht * BPP + (long)((w + 7) / 8) * ht;   /* RichCursor: pixels + mask */
  if (enc == 4) { if (avail < 4) return -1; return 4 + BPP + (long)rd32(q) * (BPP + 4); }
  if (enc == 6 || enc == 9) { if (avail < 4) return -1; return 4 + (long)rd32(q); }
  return -2;
}
/* decode one rectangle (already known to be complete and inside the picture) */
static void decode_rect(hcl *h, const unsigned char *q, unsigned x, unsigned y, unsigned w, unsigned ht, long enc) {
  unsigned xx, yy;
  if (enc == 0) {
    for (yy = 0; yy < ht; yy++) for (xx = 0; xx < w; xx++) { h->pic[(size_t)(y + yy) * h->pw + x + xx] = rdpix(q); q += BPP; }
  } else if (enc == 1) {                       /* CopyRect (approximate under scaling: a source outside the
                                                  picture is skipped, convergence is judged after a full refresh) */
    unsigned sx = rd16(q), sy = rd16(q + 2);
    if ((int)(sx + w) <= h->pw && (int)(sy + ht) <= h->ph) {
      uint32_t *tmp = (uint32_t *)malloc(sizeof(uint32_t) * (size_t)w * ht);
      for (yy = 0; yy < ht; yy++) for (xx = 0; xx < w; xx++) tmp[(size_t)yy * w + xx] = h->pic[(size_t)(sy + yy) * h->pw + sx + xx];
      for (yy = 0; yy < ht; yy++) for (xx = 0; xx < w; xx++) h->pic[(size_t)(y + yy) * h->pw + x + xx] = tmp[(size_t)yy * w + xx];
      free(tmp);
    }
  } else if (enc == 4) {                       /* CoRRE: background + subrectangles with 8-bit geometry */
    unsigned long ns = rd32(q), k; uint32_t bg = rdpix(q + 4);
    q += 4 + BPP;
    for (yy = 0; yy < ht; yy++) for (xx = 0; xx < w; xx++) h->pic[(size_t)(y + yy) * h->pw + x + xx] = bg;
    for (k = 0; k < ns; k++) {
      uint32_t v = rdpix(q); unsigned sx = q[BPP], sy = q[BPP + 1], sw = q[BPP + 2], sh = q[BPP + 3];
      q += BPP + 4;
      if (sx + sw > w || sy + sh > ht) { oracle_fail(h, "CoRRE subrectangle outside its rectangle (%ld,%ld)", sx, sy); continue; }
      for (yy = 0; yy < sh; yy++) for (xx = 0; xx < sw; xx++) h->pic[(size_t)(y + sy + yy) * h->pw + x + sx + xx] = v;
    }
  } else {                                     /* Zlib (persistent stream) / Ultra (LZO, per rectangle) */
    unsigned long len = rd32(q); size_t raw = (size_t)w * ht * BPP;
    unsigned char *tmp = (unsigned char *)malloc(raw ? raw : 1); const unsigned char *t = tmp; int ok = 1;
    if (enc == 6) {
      int rc;
      if (!h->zinit) { memset(&h->zs, 0, sizeof h->zs); inflateInit(&h->zs); h->zinit = 1; }
      h->zs.next_in = (Bytef *)(q + 4); h->zs.avail_in = (uInt)len; h->zs.next_out = tmp; h->zs.avail_out = (uInt)raw;
      rc = inflate(&h->zs, Z_SYNC_FLUSH);
      if ((rc != Z_OK && rc != Z_STREAM_END && rc != Z_BUF_ERROR) || h->zs.avail_out != 0 || h->zs.avail_in != 0) {
        oracle_fail(h, "zlib rectangle does not inflate to w*h pixels (rc %ld, %ld bytes missing)", rc, h->zs.avail_out); ok = 0; }
    } else {
      lzo_uint out = raw; int rc = lzo1x_decompress_safe(q + 4, len, tmp, &out, NULL);
      if (rc != LZO_E_OK || out != raw) { oracle_fail(h, "ultra rectangle does not decompress to w*h pixels (rc %ld, %ld bytes)", rc, (long)out); ok = 0; }
    }
    if (ok) for (yy = 0; yy < ht; yy++) for (xx = 0; xx < w; xx++) { h->pic[(size_t)(y + yy) * h->pw + x + xx] = rdpix(t); t += BPP; }
    free(tmp);
  }
}

/* parse everything complete in h->c.out; returns 0 (possibly leaving an incomplete message), or -1 on
   a malformed / unexpected stream.  Exactly the number of rectangles announced in the header of a
   FramebufferUpdate is consumed: a server that sends more (or fewer) leaves the stream out of step,
   which shows up as an unknown message / encoding or as stray bytes when the server is idle. */
static int parse(hcl *h) {
  vh_buf *b = &h->c.out;
  for (;;) {
    const unsigned char *p = b->p; size_t n = b->n;
    if (n < 1) return 0;
    if (p[0] == 4) {                       /* rfbResizeFrameBuffer */
      if (n < 6) return 0;
      h->told = 1; h->tw[0] = rd16(p + 2); h->tw[1] = rd16(p + 4);
      resize_pic(h, h->tw[0], h->tw[1]);
      vh_buf_consume(b, 6);
    } else if (p[0] == 0xF) {              /* rfbPalmVNCReSizeFrameBuffer */
      if (n < 12) return 0;
      h->told = 2; h->tw[0] = rd16(p + 2); h->tw[1] = rd16(p + 4); h->tw[2] = rd16(p + 6); h->tw[3] = rd16(p + 8);
      resize_pic(h, h->tw[2], h->tw[3]);
      vh_buf_consume(b, 12);
    } else if (p[0] == 1) {                /* SetColourMapEntries */
      size_t len;
      if (n < 6) return 0;
      len = 6 + (size_t)rd16(p + 4) * 6;
      if (n < len) return 0;
      vh_buf_consume(b, len);
    } else if (p[0] == 0) {                /* FramebufferUpdate: only complete messages are consumed */
      size_t off = 4; unsigned nr, i;
      if (n < 4) return 0;
      nr = rd16(p + 2);
      /* (the padding byte is not initialised by the server: not checked) */
      /* first pass: completeness */
      { size_t o = 4;
        for (i = 0; i < nr; i++) {
          unsigned w, ht; long enc, sz;
          if (n < o + 12) return 0;
          w = rd16(p + o + 4); ht = rd16(p + o + 6); enc = (long)(int32_t)rd32(p + o + 8); o += 12;
          sz = rect_payload(p + o, n - o, w, ht, enc);
          if (sz == -1) return 0;
          if (sz == -2 || (enc != 0 && enc != -223 && enc != h->enc && !(enc == 1 && h->cr) && !(enc == -239 && h->shape))) {
            oracle_fail(h, "unexpected encoding %ld in rectangle %ld: stream out of step or not negotiated", enc, (long)i); return -1; }
          if (n < o + (size_t)sz) return 0;
          o += (size_t)sz;
        }
      }
      for (i = 0; i < nr; i++) {
        unsigned x = rd16(p + off), y = rd16(p + off + 2), w = rd16(p + off + 4), ht = rd16(p + off + 6);
        long enc = (long)(int32_t)rd32(p + off + 8), sz;
        off += 12;
        sz = rect_payload(p + off, n - off, w, ht, enc);
        if (enc == -223) { h->gotnfs = 1; h->nfsw = w; h->nfsh = ht; resize_pic(h, w, ht); continue; }
        if (enc == -239) { off += (size_t)sz; continue; }            /* cursor shape: not part of the picture */
        if (enc != 1 && h->nrect < MAXR) { int *r = h->rect[h->nrect++]; r[0] = x; r[1] = y; r[2] = w; r[3] = ht; }
        if (w == 0 || ht == 0 || (int)(x + w) > h->pw || (int)(y + ht) > h->ph) {
          if (!h->bad) snprintf(h->badmsg, sizeof h->badmsg, "rect %u,%u,%u,%u not a non-empty rectangle inside told size %dx%d", x, y, w, ht, h->pw, h->ph);
          h->bad++;
        } else decode_rect(h, p + off, x, y, w, ht, enc);
        off += (size_t)sz;
      }
      vh_buf_consume(b, off);
    } else {
      oracle_fail(h, "unexpected server message type %ld: stream out of step (%ld bytes left)", p[0], (long)n);
      return -1;
    }
  }
}

/* run the event loop until the server has nothing more to read and writes nothing more.  Unlike
   vh_pump this does not look at rfbProcessEvents' return value: a client whose requested and modified
   regions are both non-empty but disjoint makes rfbUpdateClient report "busy" on every call although
   nothing is sent (vh_pump would spin through its whole iteration budget, ~1 s per op). */
static void c17_pump(vh_conn **cs, int nc) {
  int idle = 0, iter = 0;
  while (idle < 3 && iter < 100000) {
    int i, busy = 0;
    rfbProcessEvents(scr, 0);
    for (i = 0; i < nc; i++) {
      size_t before;
      if (!cs[i]) continue;
      before = cs[i]->out.n;
      vh_drain(cs[i]);
      if (cs[i]->out.n != before) busy = 1;
      if (cs[i]->cl && cs[i]->cl->sock != RFB_INVALID_SOCKET && vh_srv_pending(cs[i]->cl->sock) > 0) busy = 1;
    }
    idle = busy ? 0 : idle + 1; iter++;
  }
}

static void pump_all(void) {
  vh_conn *arr[MAXC]; int i, n = 0;
  for (i = 0; i < MAXC; i++) if (cls[i].used && cls[i].live) arr[n++] = &cls[i].c;
  c17_pump(arr, n);
  for (i = 0; i < MAXC; i++) if (cls[i].used && cls[i].live) {
    hcl *h = &cls[i];
    if (parse(h) == 0 && h->c.out.n > 0)      /* the server is idle: nothing more will arrive */
      oracle_fail(h, "incomplete message (%ld bytes, type %ld) while the server is idle: fewer rectangles sent than announced or stream out of step", (long)h->c.out.n, h->c.out.p[0]);
    if (h->bad && h->c.out.n > 0) vh_buf_reset(&h->c.out);   /* reported once; resynchronise */
  }
}
static void begin_op(void) {
  int i; for (i = 0; i < MAXC; i++) { cls[i].nrect = cls[i].nhook = 0; cls[i].told = 0; cls[i].gotnfs = 0; }
  npe = 0;
}
static int is_live(int i) {
  return i >= 0 && i < MAXC && cls[i].used && cls[i].live && cls[i].c.cl && cls[i].c.cl->sock != RFB_INVALID_SOCKET;
}

/* reference (model independent): box filter of the current framebuffer for a client that was told pw x ph.
   Block of reduced pixel (X,Y): a x b source pixels, a = SW div pw, b = SH div ph, whose top-left
   corner is (X*SW div pw, Y*SH div ph) -- for a factor n dividing the screen size this is the n x n
   block at (n*X, n*Y); per channel floor(sum / (a*b)); colour-mapped: the top-left pixel of the block. */
static uint32_t reference(int pw, int ph, int X, int Y) {
  int a = SW / pw, b = SH / ph, i, j, ox = (int)(((long)X * SW) / pw), oy = (int)(((long)Y * SH) / ph);
  rfbPixelFormat *f = &scr->serverFormat;
  unsigned long r = 0, g = 0, bl = 0;
  if (pw == SW && ph == SH) return getpix(scr->frameBuffer, scr->paddedWidthInBytes, X, Y); /* factor 1: the screen itself */
  if (MAPPED) return getpix(scr->frameBuffer, scr->paddedWidthInBytes, ox, oy);
  for (j = 0; j < b; j++) for (i = 0; i < a; i++) {
    uint32_t v = getpix(scr->frameBuffer, scr->paddedWidthInBytes, ox + i, oy + j);
    r += (v >> f->redShift) & f->redMax; g += (v >> f->greenShift) & f->greenMax; bl += (v >> f->blueShift) & f->blueMax;
  }
  r /= (unsigned long)(a * b); g /= (unsigned long)(a * b); bl /= (unsigned long)(a * b);
  return (uint32_t)((r << f->redShift) | (g << f->greenShift) | (bl << f->blueShift));
}

static void send_req(hcl *h, int inc, int x, int y, int w, int ht) {
  unsigned char m[10];
  m[0] = 3; m[1] = (unsigned char)inc; m[2] = x >> 8; m[3] = x; m[4] = y >> 8; m[5] = y; m[6] = w >> 8; m[7] = w; m[8] = ht >> 8; m[9] = ht;
  vh_send(&h->c, m, 10);
}

int main(void) {
  char *line, *tok[16];
  rfbVerifPreEncodeHook = hook;
  while ((line = vh_readline())) {
    int n = vh_split(line, tok, 16);
    fflush(stdout);
    if (n == 0 || tok[0][0] == '#') continue;
    { int i; for (i = 0; i < MAXC; i++) if (cls[i].used && cls[i].bad) {   /* found while another op pumped */
        printf("ORACLE client %d: %s | ", i, cls[i].badmsg); cls[i].bad = 0; } }
    begin_op();
    if (!strcmp(tok[0], "screen") && n == 4 && !scr) {
      SW = atoi(tok[1]); SH = atoi(tok[2]);
      MAPPED = !strcmp(tok[3], "8m");
      BPP = MAPPED ? 1 : atoi(tok[3]) / 8;
      if (SW < 1 || SH < 1 || SW > 4096 || SH > 4096 || (BPP < 1 || BPP > 4)) { puts("bad-op"); continue; }
      scr = vh_screen(SW, SH, BPP);
      if (!scr) { puts("bad-op"); continue; }
      scr->cursor = NULL;
      scr->ptrAddEvent = on_ptr;
      if (MAPPED) {
        int i;
        scr->serverFormat.trueColour = FALSE;
        scr->colourMap.count = 256; scr->colourMap.is16 = FALSE;
        scr->colourMap.data.bytes = (uint8_t *)malloc(768);
        for (i = 0; i < 768; i++) scr->colourMap.data.bytes[i] = (uint8_t)(i * 7);
      }
      puts("ok");
    } else if (!scr) { puts("bad-op");
    } else if (!strcmp(tok[0], "client") && n >= 3 && n <= 6) {
      int i = atoi(tok[1]); hcl *h; unsigned char m[32]; int k = 0, ne, enc = 0, cr = 0, shape = 0, f, okf = 1;
      if (n >= 4) {
        if (!strcmp(tok[3], "raw")) enc = 0; else if (!strcmp(tok[3], "corre")) enc = 4;
        else if (!strcmp(tok[3], "zlib")) enc = 6; else if (!strcmp(tok[3], "ultra")) enc = 9;
        else { puts("bad-op"); continue; }
      }
      for (f = 4; f < n; f++) {
        if (!strcmp(tok[f], "cr") && !cr) cr = 1; else if (!strcmp(tok[f], "shape") && !shape) shape = 1; else okf = 0;
      }
      if (!okf) { puts("bad-op"); continue; }
      if (i < 0 || i >= MAXC || cls[i].used) { puts("bad-op"); continue; }
      h = &cls[i]; memset(h, 0, sizeof *h); h->used = 1; h->nfs = atoi(tok[2]) ? 1 : 0; h->enc = enc; h->cr = cr; h->shape = shape;
      vh_connect_pre(scr, &h->c, "RFB 003.008\n", 12);
      if (!h->c.cl || vh_handshake_none(scr, &h->c, 1) != 0) { puts("hs-failed"); continue; }
      h->live = 1;
      /* ServerInit consumed by vh_handshake_none (out reset). SetEncodings */
      ne = 1 + (h->nfs ? 1 : 0) + (cr ? 1 : 0) + (shape ? 1 : 0);
      m[k++] = 2; m[k++] = 0; m[k++] = 0; m[k++] = (unsigned char)ne;
      m[k++] = 0; m[k++] = 0; m[k++] = 0; m[k++] = (unsigned char)enc;
      if (cr) { m[k++] = 0; m[k++] = 0; m[k++] = 0; m[k++] = 1; }                   /* CopyRect */
      if (shape) { m[k++] = 0xFF; m[k++] = 0xFF; m[k++] = 0xFF; m[k++] = 0x11; }    /* RichCursor -239 */
      if (h->nfs) { m[k++] = 0xFF; m[k++] = 0xFF; m[k++] = 0xFF; m[k++] = 0x21; } /* NewFBSize -223 */
      vh_send(&h->c, m, k);
      resize_pic(h, SW, SH);
      pump_all();
      puts("ok");
    } else if (!strcmp(tok[0], "scale") && n == 4) {
      int i = atoi(tok[1]); hcl *h; unsigned char m[4]; int f = atoi(tok[3]);
      if (!is_live(i) || f < 0 || f > 255) { puts("bad-op"); continue; }
      h = &cls[i];
      m[0] = tok[2][0] == 'p' ? 0xF : 8; m[1] = (unsigned char)f; m[2] = 0; m[3] = 0;
      vh_send(&h->c, m, 4);
      pump_all();
      if (!h->c.cl || h->c.cl->sock == RFB_INVALID_SOCKET) {
        printf("closed %d\n", i);
        h->live = 0;
        { vh_conn *arr[1]; arr[0] = &h->c; c17_pump(arr, 1); }
      } else if (h->told == 1) printf("told %d u %d %d\n", i, h->tw[0], h->tw[1]);
      else if (h->told == 2) printf("told %d p %d %d %d %d\n", i, h->tw[0], h->tw[1], h->tw[2], h->tw[3]);
      else printf("told %d none\n", i);
    } else if (!strcmp(tok[0], "geom") && n == 1) {
      rfbScreenInfoPtr p; int guard = 0;
      printf("geom");
      for (p = scr; p && guard < 1000; p = p->scaledScreenNext, guard++)
        printf(" %dx%d:%d", p->width, p->height, p->scaledScreenRefCount);
      putchar('\n');
    } else if (!strcmp(tok[0], "cl") && n == 2) {
      int i = atoi(tok[1]);
      if (!is_live(i)) { puts("bad-op"); continue; }
      printf("cl %d %dx%d%s\n", i, cls[i].c.cl->scaledScreen->width, cls[i].c.cl->scaledScreen->height,
             cls[i].c.cl->scaledScreen == scr ? " self" : "");
    } else if (!strcmp(tok[0], "cursor") && n == 1) {
      int i, any = 0;
      static char cur[] = "xxxxxxx" "x     x" "x xxx x" "x x x x" "x xxx x" "x     x" "xxxxxxx";
      static char msk[] = "xxxxxxx" "xxxxxxx" "xxxxxxx" "xxxxxxx" "xxxxxxx" "xxxxxxx" "xxxxxxx";
      for (i = 0; i < MAXC; i++) if (cls[i].used) any = 1;
      if (any || MAPPED || scr->cursor || SW < 16 || SH < 16) { puts("bad-op"); continue; }
      scr->cursor = rfbMakeXCursor(7, 7, cur, msk);
      puts("ok");
    } else if (!strcmp(tok[0], "newfb") && n == 4) {
      int w = atoi(tok[1]), ht = atoi(tok[2]), xx, yy; char *nfb, *old = scr->frameBuffer;
      uint32_t mask = BPP == 4 ? 0xFFFFFFFFu : BPP == 3 ? 0xFFFFFFu : BPP == 2 ? 0xFFFFu : 0xFFu;
      if (MAPPED || w < 1 || ht < 1 || w > 4096 || ht > 4096) { puts("bad-op"); continue; }
      nfb = (char *)calloc((size_t)w * ht, BPP);
      vh_srand((uint64_t)strtoull(tok[3], NULL, 10));
      for (yy = 0; yy < ht; yy++) for (xx = 0; xx < w; xx++)
        putpix(nfb, w * BPP, xx, yy, (uint32_t)(vh_rand() >> 16) & mask);
      rfbNewFramebuffer(scr, nfb, w, ht, BPP == 2 ? 5 : 8, BPP == 1 ? 1 : 3, BPP);
      free(old);
      SW = w; SH = ht;
      puts("ok");
    } else if (!strcmp(tok[0], "draw") && n == 6) {
      int x = atoi(tok[1]), y = atoi(tok[2]), w = atoi(tok[3]), ht = atoi(tok[4]), xx, yy;
      uint32_t mask = BPP == 4 ? 0xFFFFFFFFu : BPP == 3 ? 0xFFFFFFu : BPP == 2 ? 0xFFFFu : 0xFFu;
      if (x < 0 || y < 0 || w < 1 || ht < 1 || x + w > SW || y + ht > SH) { puts("bad-op"); continue; }
      vh_srand((uint64_t)strtoull(tok[5], NULL, 10));
      for (yy = y; yy < y + ht; yy++) for (xx = x; xx < x + w; xx++)
        putpix(scr->frameBuffer, scr->paddedWidthInBytes, xx, yy, (uint32_t)(vh_rand() >> 16) & mask);
      rfbMarkRectAsModified(scr, x, y, x + w, y + ht);
      puts("ok");
    } else if (!strcmp(tok[0], "schedcopy") && n == 7) {
      int x = atoi(tok[1]), y = atoi(tok[2]), w = atoi(tok[3]), ht = atoi(tok[4]), dx = atoi(tok[5]), dy = atoi(tok[6]), yy;
      char *tmp;
      if (x < 0 || y < 0 || w < 1 || ht < 1 || x + w > SW || y + ht > SH ||
          x - dx < 0 || y - dy < 0 || x - dx + w > SW || y - dy + ht > SH) { puts("bad-op"); continue; }
      /* the application moves the pixels itself ... */
      tmp = (char *)malloc((size_t)w * ht * BPP);
      for (yy = 0; yy < ht; yy++)
        memcpy(tmp + (size_t)yy * w * BPP, scr->frameBuffer + (size_t)(y - dy + yy) * scr->paddedWidthInBytes + (size_t)(x - dx) * BPP, (size_t)w * BPP);
      for (yy = 0; yy < ht; yy++)
        memcpy(scr->frameBuffer + (size_t)(y + yy) * scr->paddedWidthInBytes + (size_t)x * BPP, tmp + (size_t)yy * w * BPP, (size_t)w * BPP);
      free(tmp);
      /* ... and reports it */
      rfbScheduleCopyRect(scr, x, y, x + w, y + ht, dx, dy);
      puts("ok");
    } else if (!strcmp(tok[0], "copy") && n == 7) {
      int x = atoi(tok[1]), y = atoi(tok[2]), w = atoi(tok[3]), ht = atoi(tok[4]), dx = atoi(tok[5]), dy = atoi(tok[6]);
      if (x < 0 || y < 0 || w < 1 || ht < 1 || x + w > SW || y + ht > SH ||
          x - dx < 0 || y - dy < 0 || x - dx + w > SW || y - dy + ht > SH) { puts("bad-op"); continue; }
      rfbDoCopyRect(scr, x, y, x + w, y + ht, dx, dy);
      puts("ok");
    } else if (!strcmp(tok[0], "mark") && n == 5) {
      rfbMarkRectAsModified(scr, atoi(tok[1]), atoi(tok[2]), atoi(tok[3]), atoi(tok[4]));
      puts("ok");
    } else if ((!strcmp(tok[0], "req") || !strcmp(tok[0], "reqq")) && n == 7) {
      int i = atoi(tok[1]), k; hcl *h; int quiet = tok[0][3] == 'q';
      if (!is_live(i)) { puts("bad-op"); continue; }
      h = &cls[i];
      send_req(h, atoi(tok[2]), atoi(tok[3]), atoi(tok[4]), atoi(tok[5]), atoi(tok[6]));
      pump_all();
      printf(quiet ? "updq %d" : "upd %d", i);
      if (h->gotnfs) printf(" nfs=%dx%d", h->nfsw, h->nfsh);
      if (!quiet && h->enc == 0) {
        printf(" %d", h->nrect);
        for (k = 0; k < h->nrect; k++) {
          if (k < h->nhook) printf(" %d,%d,%d,%d>", h->hook[k][0], h->hook[k][1], h->hook[k][2], h->hook[k][3]);
          else printf(" ?>");
          printf("%d,%d,%d,%d", h->rect[k][0], h->rect[k][1], h->rect[k][2], h->rect[k][3]);
        }
        if (h->nhook != h->nrect) printf(" hook=%d", h->nhook);
      } else if (!quiet) {
        /* splitting encodings: the tiles sent for one update rectangle must partition one rectangle,
           which is printed in the place of the single Raw rectangle */
        printf(" %d", h->nhook);
        if (h->nhook == 1 && h->nrect > 0) {
          int x1 = 1 << 30, y1 = 1 << 30, x2 = -1, y2 = -1; long area = 0;
          for (k = 0; k < h->nrect; k++) {
            int *r = h->rect[k];
            if (r[0] < x1) x1 = r[0]; if (r[1] < y1) y1 = r[1];
            if (r[0] + r[2] > x2) x2 = r[0] + r[2]; if (r[1] + r[3] > y2) y2 = r[1] + r[3];
            area += (long)r[2] * r[3];
          }
          printf(" %d,%d,%d,%d>%d,%d,%d,%d", h->hook[0][0], h->hook[0][1], h->hook[0][2], h->hook[0][3], x1, y1, x2 - x1, y2 - y1);
          if (area != (long)(x2 - x1) * (y2 - y1)) printf(" ORACLE the %d rectangles sent do not partition their bounding box", h->nrect);
        } else if (h->nhook != 0 || h->nrect != 0) printf(" tiles=%d", h->nrect);
      }
      if (h->bad) { printf(" ORACLE %s", h->badmsg); h->bad = 0; }
      if (!is_live(i)) printf(" closed");
      putchar('\n');
    } else if ((!strcmp(tok[0], "pic") || !strcmp(tok[0], "picq")) && n == 2) {
      int i = atoi(tok[1]), X, Y, bad = 0; hcl *h; uint64_t hs = 1469598103934665603ull;
      if (!is_live(i)) { puts("bad-op"); continue; }
      h = &cls[i];
      for (Y = 0; Y < h->ph; Y++) for (X = 0; X < h->pw; X++) hs = fnv_add(hs, h->pic[(size_t)Y * h->pw + X], BPP);
      if (tok[0][3] == 'q') printf("picq %d", i);   /* oracle only: no hash */
      else printf("pic %d %016llx", i, (unsigned long long)hs);
      if (h->pw < 1 || h->ph < 1) { printf(" DIFF told size %dx%d unusable ORACLE\n", h->pw, h->ph); continue; }
      /* the framebuffer was replaced by a smaller one and the client has not been told yet */
      if (h->pw > SW || h->ph > SH) { printf(" stale-size\n"); continue; }
      for (Y = 0; Y < h->ph && !bad; Y++) for (X = 0; X < h->pw && !bad; X++) {
        uint32_t want = reference(h->pw, h->ph, X, Y), got = h->pic[(size_t)Y * h->pw + X];
        if (want != got) { printf(" DIFF %d %d %x %x", X, Y, got, want); bad = 1; }
      }
      if (!bad) printf(" eq");
      putchar('\n');
    } else if (!strcmp(tok[0], "sfb") && n == 2) {
      int i = atoi(tok[1]), X, Y; rfbScreenInfoPtr s; uint64_t hs = 1469598103934665603ull;
      if (!is_live(i)) { puts("bad-op"); continue; }
      s = cls[i].c.cl->scaledScreen;
      for (Y = 0; Y < s->height; Y++) for (X = 0; X < s->width; X++)
        hs = fnv_add(hs, getpix(s->frameBuffer, s->paddedWidthInBytes, X, Y), BPP);
      printf("sfb %d %016llx\n", i, (unsigned long long)hs);
    } else if (!strcmp(tok[0], "ptr") && (n == 4 || n == 5)) {
      int i = atoi(tok[1]), x = atoi(tok[2]), y = atoi(tok[3]), mask = n == 5 ? atoi(tok[4]) & 255 : 0, k; unsigned char m[6];
      if (!is_live(i)) { puts("bad-op"); continue; }
      m[0] = 5; m[1] = (unsigned char)mask; m[2] = x >> 8; m[3] = x; m[4] = y >> 8; m[5] = y;
      vh_send(&cls[i].c, m, 6);
      pump_all();
      printf("ptr %d %d", i, npe);
      for (k = 0; k < npe; k++) {
        printf(" %d,%d,%d", pe[k][1], pe[k][2], pe[k][3]);
        if (pe[k][0] != i) printf("@%d", pe[k][0]);     /* an event attributed to another client */
      }
      putchar('\n');
    } else if (!strcmp(tok[0], "defer") && n == 2) {
      int ms = atoi(tok[1]);
      if (ms < 0 || ms > 10000000) { puts("bad-op"); continue; }
      if (ms == 0) timer_flush();               /* nothing may stay coalesced without a timer */
      scr->deferPtrUpdateTime = ms;
      printf("defer %d", ms);
      print_pe_sorted();
    } else if (!strcmp(tok[0], "ptrflush") && n == 1) {
      timer_flush();
      printf("ptrflush");
      print_pe_sorted();
    } else if (!strcmp(tok[0], "scalecut") && n == 3) {
      int i = atoi(tok[1]); unsigned char m[2];
      if (!is_live(i)) { puts("bad-op"); continue; }
      m[0] = tok[2][0] == 'p' ? 0xF : 8; m[1] = 2;
      vh_send(&cls[i].c, m, 2);
      close(cls[i].c.peer); cls[i].c.peer = -1;
      if (cls[i].c.cl) rfbProcessClientMessage(cls[i].c.cl);
      rfbProcessEvents(scr, 0);
      cls[i].live = 0;
      pump_all();
      puts("ok");
    } else if (!strcmp(tok[0], "leave") && n == 2) {
      int i = atoi(tok[1]);
      if (!is_live(i)) { puts("bad-op"); continue; }
      close(cls[i].c.peer); cls[i].c.peer = -1;
      if (cls[i].c.cl) rfbProcessClientMessage(cls[i].c.cl);
      rfbProcessEvents(scr, 0);
      cls[i].live = 0;
      pump_all();
      puts("ok");
    } else if (!strcmp(tok[0], "corr") && n == 9) {
      rfbScreenInfo a, b; int x = atoi(tok[5]), y = atoi(tok[6]), w = atoi(tok[7]), ht = atoi(tok[8]);
      memset(&a, 0, sizeof a); memset(&b, 0, sizeof b);
      a.width = atoi(tok[1]); a.height = atoi(tok[2]); b.width = atoi(tok[3]); b.height = atoi(tok[4]);
      if (a.width < 1 || a.height < 1 || b.width < 1 || b.height < 1) { puts("bad-op"); continue; }
      rfbScaledCorrection(&a, &b, &x, &y, &w, &ht, "harness");
      printf("corr %d %d %d %d\n", x, y, w, ht);
    } else if ((!strcmp(tok[0], "sx") || !strcmp(tok[0], "sy")) && n == 4) {
      rfbScreenInfo a, b; int r;
      memset(&a, 0, sizeof a); memset(&b, 0, sizeof b);
      a.width = a.height = atoi(tok[1]); b.width = b.height = atoi(tok[2]);
      if (a.width < 1 || b.width < 1) { puts("bad-op"); continue; }
      r = tok[0][1] == 'x' ? ScaleX(&a, &b, atoi(tok[3])) : ScaleY(&a, &b, atoi(tok[3]));
      printf("%s %d\n", tok[0], r);
    } else if (!strcmp(tok[0], "relx") && n == 2) {
      int lim = atoi(tok[1]), fw, tw, x; long cnt = 0, bad = 0; int fb[5] = {0,0,0,0,0};
      rfbScreenInfo a, b; memset(&a, 0, sizeof a); memset(&b, 0, sizeof b);
      for (fw = 1; fw <= lim; fw++) for (tw = 1; tw <= lim; tw++) {
        a.width = a.height = fw; b.width = b.height = tw;
        for (x = 0; x <= lim; x++) {
          long want = ((long)x * tw) / fw; int r1 = ScaleX(&a, &b, x), r2 = ScaleY(&a, &b, x);
          cnt++;
          if (r1 != want || r2 != want) { if (!bad) { fb[0] = x; fb[1] = fw; fb[2] = tw; fb[3] = r1; fb[4] = r2; } bad++; }
        }
      }
      printf("relx %d %ld %ld", lim, cnt, bad);
      if (bad) printf(" first x=%d fw=%d tw=%d ScaleX=%d ScaleY=%d want=%ld", fb[0], fb[1], fb[2], fb[3], fb[4], ((long)fb[0] * fb[2]) / fb[1]);
      putchar('\n');
    } else if (!strcmp(tok[0], "relr") && n == 3) {
      long N = atol(tok[1]), k, bad = 0; int fb[5] = {0,0,0,0,0};
      rfbScreenInfo a, b; memset(&a, 0, sizeof a); memset(&b, 0, sizeof b);
      vh_srand((uint64_t)strtoull(tok[2], NULL, 10));
      for (k = 0; k < N; k++) {
        int fw = 1 + (int)(vh_rand() % 65535), tw, x; long want; int r1, r2; uint64_t m = vh_rand() % 4;
        /* modes: independent; tw divides fw (scale factors); fw divides x*tw exactly; x at fw */
        if (m == 1) { int nn = 1 + (int)(vh_rand() % 255); tw = fw / nn; if (tw < 1) tw = 1; } else tw = 1 + (int)(vh_rand() % 65535);
        if (m == 2) { x = (int)(vh_rand() % 65536); x -= x % fw; if (x == 0 && fw <= 65535) x = fw; }
        else if (m == 3) { x = tw > 1 ? (int)(vh_rand() % tw) : 0; { int t = fw; fw = tw; tw = t; } }
        else x = (int)(vh_rand() % 65536);
        a.width = a.height = fw; b.width = b.height = tw;
        want = ((long)x * tw) / fw;
        if (want > 2147483647L) continue;          /* result does not fit an int: not a coordinate */
        r1 = ScaleX(&a, &b, x); r2 = ScaleY(&a, &b, x);
        if (r1 != want || r2 != want) { if (!bad) { fb[0] = x; fb[1] = fw; fb[2] = tw; fb[3] = r1; fb[4] = r2; } bad++; }
      }
      printf("relr %ld %ld", N, bad);
      if (bad) printf(" first x=%d fw=%d tw=%d ScaleX=%d ScaleY=%d want=%ld", fb[0], fb[1], fb[2], fb[3], fb[4], ((long)fb[0] * fb[2]) / fb[1]);
      putchar('\n');
    } else if (!strcmp(tok[0], "corrsum") && n == 2) {
      int lim = atoi(tok[1]), fw, tw, x, w; uint64_t hs = 1469598103934665603ull;
      rfbScreenInfo a, b; memset(&a, 0, sizeof a); memset(&b, 0, sizeof b);
      for (fw = 1; fw <= lim; fw++) for (tw = 1; tw <= lim; tw++) {
        a.width = fw; a.height = 1; b.width = tw; b.height = 1;
        for (x = 0; x < fw; x++) for (w = 1; x + w <= fw; w++) {
          int xx = x, yy = 0, ww = w, hh = 1;
          rfbScaledCorrection(&a, &b, &xx, &yy, &ww, &hh, "harness");
          hs = fnv_add(hs, (uint32_t)xx, 4); hs = fnv_add(hs, (uint32_t)ww, 4);
        }
      }
      printf("corrsum %016llx\n", (unsigned long long)hs);
    } else if (!strcmp(tok[0], "corrrnd") && n == 3) {
      long N = atol(tok[1]), k; uint64_t hs = 1469598103934665603ull;
      rfbScreenInfo a, b; memset(&a, 0, sizeof a); memset(&b, 0, sizeof b);
      vh_srand((uint64_t)strtoull(tok[2], NULL, 10));
      for (k = 0; k < N; k++) {
        int fw = 1 + (int)(vh_rand() % 65535), tw, x, w, xx, yy = 0, ww, hh = 1;
        if (vh_rand() % 2) { int nn = 1 + (int)(vh_rand() % 255); tw = fw / nn; if (tw < 1) tw = 1; } else tw = 1 + (int)(vh_rand() % 65535);
        if (vh_rand() % 4 == 0) { int t = fw; fw = tw; tw = t; }
        x = (int)(vh_rand() % fw); w = 1 + (int)(vh_rand() % (fw - x));
        a.width = fw; a.height = 1; b.width = tw; b.height = 1;
        xx = x; ww = w;
        rfbScaledCorrection(&a, &b, &xx, &yy, &ww, &hh, "harness");
        hs = fnv_add(hs, (uint32_t)xx, 4); hs = fnv_add(hs, (uint32_t)ww, 4);
      }
      printf("corrrnd %016llx\n", (unsigned long long)hs);
    } else puts("bad-op");
    fflush(stdout);
  }
  { int i; for (i = 0; i < MAXC; i++) if (cls[i].used && cls[i].bad) printf("ORACLE client %d: %s\n", i, cls[i].badmsg); }
  return 0;
}
