/* C02 harness: update scheduling / convergence on the real server.
 * ops (see Driver/C02.lean): screen W H progslice maxrects | cursor w h xhot yhot | client N |
 *   setenc N copyrect cursorshape | draw x1 y1 x2 y2 seed | mark x1 y1 x2 y2 |
 *   copyrgn dx dy x1 y1 x2 y2 [x1 y1 x2 y2 ...] | req N incr x y w h | update N | state N
 * Model-compared lines are printed plainly; lines starting with '!' are direct-oracle lines
 * (model independent), separated out by the python side. */
#include "sess.h"
#include <rfb/rfbregion.h>

#include <sys/time.h>
#define MAXC 8
/* virtual clock: the library's gettimeofday() calls see script-controlled time */
static long long vclock_us = 1000000000LL;
int gettimeofday(struct timeval *tv, void *tz) {
  (void)tz;
  if (tv) { tv->tv_sec = (time_t)(vclock_us / 1000000); tv->tv_usec = (suseconds_t)(vclock_us % 1000000); }
  return 0;
}
static int softcur[MAXC];
/* the scripted cursor (all-set mask, white) and pointer: what a soft-cursor client must show */
static int havecur, curw, curh, curxh, curyh, ptrx, ptry;
#define CURPIX 0x00ffffffu
static int in_curbox(int x, int y, int cx, int cy) {
  int x0 = cx - curxh, y0 = cy - curyh;
  return havecur && x >= x0 && x < x0 + curw && y >= y0 && y < y0 + curh;
}
static rfbScreenInfoPtr scr;
static int W, H;
static vh_conn conns[MAXC];
static int used[MAXC];
static uint32_t *pic[MAXC];       /* each client's picture */
static uint32_t drawctr = 1;

static uint32_t pixhash(uint32_t seed, int x, int y) {
  uint64_t z = ((uint64_t)seed << 40) ^ ((uint64_t)(uint32_t)x << 20) ^ (uint32_t)y;
  z = (z ^ (z >> 30)) * 0xBF58476D1CE4E5B9ull; z = (z ^ (z >> 27)) * 0x94D049BB133111EBull;
  return (uint32_t)(z ^ (z >> 31)) | 1u;   /* never 0 */
}

static void print_region(sraRegionPtr r) {
  sraRectangleIterator *i = sraRgnGetIterator(r); sraRect rc; int first = 1;
  putchar('[');
  while (sraRgnIteratorNext(i, &rc)) {
    printf("%s%d,%d,%d,%d", first ? "" : ";", rc.x1, rc.y1, rc.x2, rc.y2); first = 0;
  }
  sraRgnReleaseIterator(i);
  putchar(']');
}

static unsigned char *mask_of(sraRegionPtr r) {
  unsigned char *m = (unsigned char *)calloc((size_t)W * H, 1);
  sraRectangleIterator *i = sraRgnGetIterator(r); sraRect rc; int x, y;
  while (sraRgnIteratorNext(i, &rc))
    for (y = rc.y1; y < rc.y2; y++) for (x = rc.x1; x < rc.x2; x++)
      if (x >= 0 && y >= 0 && x < W && y < H) m[y * W + x] = 1;
  sraRgnReleaseIterator(i);
  return m;
}

/* the convergence invariant, evaluated on the implementation's own state and the decoded picture */
static void oracle_inv(int n) {
  rfbClientPtr cl = conns[n].cl; uint32_t *fb = (uint32_t *)scr->frameBuffer;
  unsigned char *m, *c; int x, y, bad = 0, bx = -1, by = -1;
  if (!cl) return;
  if (softcur[n] && !havecur) { printf("!inv %d skip-softcursor idle=%d\n", n, sraRgnEmpty(cl->modifiedRegion) && sraRgnEmpty(cl->copyRegion)); return; }
  m = mask_of(cl->modifiedRegion); c = mask_of(cl->copyRegion);
  for (y = 0; y < H; y++) for (x = 0; x < W; x++) {
    /* a soft-cursor client shows the cursor where it was last painted for it (cl->cursorX/Y) */
    uint32_t want = (softcur[n] && in_curbox(x, y, cl->cursorX, cl->cursorY)) ? CURPIX : fb[y * W + x];
    if (m[y * W + x]) continue;
    if (c[y * W + x]) {
      int sx = x - cl->copyDX, sy = y - cl->copyDY;
      if (sx < 0 || sy < 0 || sx >= W || sy >= H || want != pic[n][sy * W + sx]) { if (!bad) { bx = x; by = y; } bad++; }
    } else if (want != pic[n][y * W + x]) { if (!bad) { bx = x; by = y; } bad++; }
  }
  if (bad) printf("!inv %d FAIL pixels=%d first=%d,%d\n", n, bad, bx, by);
  else printf("!inv %d ok idle=%d\n", n, sraRgnEmpty(cl->modifiedRegion) && sraRgnEmpty(cl->copyRegion));
  free(m); free(c);
}

/* `settled N`: the script claims the server has nothing more to send to N (python verifies the claim
 * from the observations); the whole picture must equal the framebuffer, for a soft-cursor client with
 * the scripted cursor painted at the scripted pointer position.  Uses no library state. */
static void oracle_settled(int n) {
  uint32_t *fb = (uint32_t *)scr->frameBuffer; int x, y, bad = 0, bx = -1, by = -1;
  if (softcur[n] && !havecur) { printf("!settled %d skip\n", n); return; }
  for (y = 0; y < H; y++) for (x = 0; x < W; x++) {
    uint32_t want = (softcur[n] && in_curbox(x, y, ptrx, ptry)) ? CURPIX : fb[y * W + x];
    if (want != pic[n][y * W + x]) { if (!bad) { bx = x; by = y; } bad++; }
  }
  if (bad) printf("!settled %d FAIL pixels=%d first=%d,%d soft=%d\n", n, bad, bx, by, softcur[n]);
  else printf("!settled %d ok\n", n);
}

static uint16_t be16(const unsigned char *p) { return (uint16_t)((p[0] << 8) | p[1]); }
static uint32_t be32(const unsigned char *p) { return ((uint32_t)p[0] << 24) | (p[1] << 16) | (p[2] << 8) | p[3]; }

/* parse + apply every complete FramebufferUpdate in c->out; prints the summary of the update */
static void apply_updates(int n) {
  vh_conn *c = &conns[n]; int printed = 0;
  while (c->out.n >= 4) {
    unsigned char *p = c->out.p; size_t off = 4, k; unsigned nrects, cs = 0;
    vh_buf copies = {0}, raws = {0}; char tmp[128]; int ok = 1;
    if (p[0] != 0) { printf("!wire %d unexpected message type %d\n", n, p[0]); c->out.n = 0; break; }
    nrects = be16(p + 2);
    for (k = 0; k < nrects; k++) {
      int x, y, w, h; int32_t enc;
      if (c->out.n < off + 12) { ok = 0; break; }
      x = be16(p + off); y = be16(p + off + 2); w = be16(p + off + 4); h = be16(p + off + 6);
      enc = (int32_t)be32(p + off + 8); off += 12;
      if (enc == 0) {
        size_t len = (size_t)w * h * 4; int i, j;
        if (c->out.n < off + len) { ok = 0; break; }
        if (x + w > W || y + h > H) printf("!wire %d raw rect outside screen %d,%d,%d,%d\n", n, x, y, w, h);
        else for (j = 0; j < h; j++) for (i = 0; i < w; i++)
          memcpy(&pic[n][(y + j) * W + x + i], p + off + ((size_t)j * w + i) * 4, 4);
        off += len;
        sprintf(tmp, "%s%d,%d,%d,%d", raws.n ? ";" : "", x, y, x + w, y + h); vh_buf_add(&raws, tmp, strlen(tmp));
      } else if (enc == 1) {
        int sx, sy, j;
        if (c->out.n < off + 4) { ok = 0; break; }
        sx = be16(p + off); sy = be16(p + off + 2); off += 4;
        if (x + w > W || y + h > H || sx + w > W || sy + h > H) printf("!wire %d copyrect outside screen\n", n);
        else if (sy >= y) for (j = 0; j < h; j++) memmove(&pic[n][(y + j) * W + x], &pic[n][(sy + j) * W + sx], (size_t)w * 4);
        else for (j = h - 1; j >= 0; j--) memmove(&pic[n][(y + j) * W + x], &pic[n][(sy + j) * W + sx], (size_t)w * 4);
        sprintf(tmp, "%s%d,%d,%d,%d,%d,%d", copies.n ? ";" : "", x, y, w, h, sx, sy); vh_buf_add(&copies, tmp, strlen(tmp));
      } else if (enc == (int32_t)0xFFFFFF10) {           /* XCursor */
        size_t len = (w * h) ? 6 + 2 * (size_t)((w + 7) / 8) * h : 0;
        if (c->out.n < off + len) { ok = 0; break; }
        off += len; cs = 1;
      } else { printf("!wire %d unexpected encoding %d\n", n, enc); c->out.n = 0; return; }
    }
    if (!ok) break;    /* incomplete message: wait for more */
    vh_buf_add(&copies, "", 1); vh_buf_add(&raws, "", 1);
    printf("fbu cs=%u copies=[%s] raws=[%s]\n", cs, (char *)copies.p, (char *)raws.p);
    printed++;
    free(copies.p); free(raws.p);
    vh_buf_consume(&c->out, off);
  }
  if (!printed) puts("none");
  else if (printed > 1) printf("!wire %d %d updates for one rfbUpdateClient call\n", n, printed);
}

int main(void) {
  char *line; static char *tok[16384];
  while ((line = vh_readline())) {
    int n = vh_split(line, tok, 16384);
    if (n == 0 || tok[0][0] == '#') continue;
    if (!strcmp(tok[0], "screen") && n == 5 && !scr) {
      W = atoi(tok[1]); H = atoi(tok[2]);
      scr = vh_screen(W, H, 4);
      scr->progressiveSliceHeight = atoi(tok[3]); scr->maxRectsPerUpdate = atoi(tok[4]);
      { int x, y; uint32_t *fb = (uint32_t *)scr->frameBuffer;
        for (y = 0; y < H; y++) for (x = 0; x < W; x++) fb[y * W + x] = pixhash(0, x, y); }
      puts("ok");
    } else if (!scr) { puts("bad-op");
    } else if (!strcmp(tok[0], "cursor") && n == 5) {
      int w = atoi(tok[1]), h = atoi(tok[2]); rfbCursorPtr c;
      char *bits = (char *)malloc((size_t)w * h + 1); memset(bits, 'x', (size_t)w * h); bits[w * h] = 0;
      c = rfbMakeXCursor(w, h, bits, bits); c->xhot = atoi(tok[3]); c->yhot = atoi(tok[4]);
      c->cleanup = TRUE;
      rfbSetCursor(scr, c); free(bits);
      havecur = 1; curw = w; curh = h; curxh = c->xhot; curyh = c->yhot;
      puts("ok");
    } else if (!strcmp(tok[0], "client") && n == 2) {
      int id = atoi(tok[1]); int i;
      if (id < 0 || id >= MAXC || used[id]) { puts("bad-op"); continue; }
      used[id] = 1; softcur[id] = 1;   /* no cursor-shape updates until SetEncodings asks for them */
      vh_connect_pre(scr, &conns[id], "RFB 003.008\n", 12);
      vh_handshake_none(scr, &conns[id], 1);
      pic[id] = (uint32_t *)malloc((size_t)W * H * 4);
      for (i = 0; i < W * H; i++) pic[id][i] = 0;   /* 0 never occurs in the framebuffer */
      puts("ok");
    } else if (!strcmp(tok[0], "setenc") && n == 4) {
      int id = atoi(tok[1]), cr = atoi(tok[2]), cs = atoi(tok[3]); unsigned char m[4 + 12]; int k = 0;
      if (id < 0 || id >= MAXC || !used[id] || !conns[id].cl) { puts("bad-op"); continue; }
      m[0] = 2; m[1] = 0; m[2] = 0; m[3] = (unsigned char)(1 + !!cr + !!cs);
      memset(m + 4, 0, 4); k = 8;                                   /* Raw */
      if (cr) { m[k] = 0; m[k+1] = 0; m[k+2] = 0; m[k+3] = 1; k += 4; }
      if (cs) { m[k] = 0xFF; m[k+1] = 0xFF; m[k+2] = 0xFF; m[k+3] = 0x10; k += 4; }
      vh_send(&conns[id], m, (size_t)k);
      rfbProcessClientMessage(conns[id].cl);
      softcur[id] = !cs;
      puts("ok");
    } else if (!strcmp(tok[0], "defer") && n == 2) {
      scr->deferUpdateTime = atoi(tok[1]); puts("ok");
    } else if (!strcmp(tok[0], "clock") && n == 2) {
      vclock_us += atoll(tok[1]); puts("ok");
    } else if (!strcmp(tok[0], "ptr") && n == 3) {
      int k, done = 0;
      for (k = 0; k < MAXC && !done; k++) if (used[k] && conns[k].cl) { rfbDefaultPtrAddEvent(0, atoi(tok[1]), atoi(tok[2]), conns[k].cl); done = 1; }
      if (done) { ptrx = atoi(tok[1]); ptry = atoi(tok[2]); }
      puts(done ? "ok" : "bad-op");
    } else if ((!strcmp(tok[0], "draw") && n == 6) || (!strcmp(tok[0], "mark") && n == 5)) {
      int x1 = atoi(tok[1]), y1 = atoi(tok[2]), x2 = atoi(tok[3]), y2 = atoi(tok[4]);
      if (tok[0][0] == 'd') {
        int xa = x1 < x2 ? x1 : x2, xb = x1 < x2 ? x2 : x1, ya = y1 < y2 ? y1 : y2, yb = y1 < y2 ? y2 : y1, x, y;
        uint32_t *fb = (uint32_t *)scr->frameBuffer; uint32_t seed = (uint32_t)atoi(tok[5]) * 65536u + drawctr++;
        for (y = ya < 0 ? 0 : ya; y < yb && y < H; y++) for (x = xa < 0 ? 0 : xa; x < xb && x < W; x++) fb[y * W + x] = pixhash(seed, x, y);
      }
      rfbMarkRectAsModified(scr, x1, y1, x2, y2);
      puts("ok");
    } else if (!strcmp(tok[0], "copyrgn") && n >= 7 && (n - 3) % 4 == 0) {
      int dx = atoi(tok[1]), dy = atoi(tok[2]), k; sraRegionPtr rg = NULL;
      for (k = 3; k + 3 < n; k += 4) {
        sraRegionPtr r = sraRgnCreateRect(atoi(tok[k]), atoi(tok[k+1]), atoi(tok[k+2]), atoi(tok[k+3]));
        if (!rg) rg = r; else { sraRgnOr(rg, r); sraRgnDestroy(r); }
      }
      /* reference result of the copy: simultaneous copy of the old contents */
      { uint32_t *fb = (uint32_t *)scr->frameBuffer; uint32_t *old = (uint32_t *)malloc((size_t)W * H * 4);
        unsigned char *m = mask_of(rg); int x, y, bad = 0;
        memcpy(old, fb, (size_t)W * H * 4);
        rfbDoCopyRegion(scr, rg, dx, dy);
        for (y = 0; y < H; y++) for (x = 0; x < W; x++) {
          uint32_t want = m[y * W + x] ? old[(y - dy) * W + (x - dx)] : old[y * W + x];
          if (fb[y * W + x] != want) bad++;
        }
        puts("ok");
        if (bad) printf("!docopy FAIL pixels=%d (server framebuffer is not the simultaneous copy)\n", bad);
        free(old); free(m); }
      sraRgnDestroy(rg);
    } else if (!strcmp(tok[0], "req") && n == 7) {
      int id = atoi(tok[1]); unsigned char m[10]; int x = atoi(tok[3]), y = atoi(tok[4]), w = atoi(tok[5]), h = atoi(tok[6]);
      if (id < 0 || id >= MAXC || !used[id] || !conns[id].cl) { puts("bad-op"); continue; }
      m[0] = 3; m[1] = (unsigned char)atoi(tok[2]);
      m[2] = x >> 8; m[3] = x & 255; m[4] = y >> 8; m[5] = y & 255; m[6] = w >> 8; m[7] = w & 255; m[8] = h >> 8; m[9] = h & 255;
      vh_send(&conns[id], m, 10);
      rfbProcessClientMessage(conns[id].cl);
      puts("ok");
    } else if (!strcmp(tok[0], "update") && n == 2) {
      int id = atoi(tok[1]);
      if (id < 0 || id >= MAXC || !used[id] || !conns[id].cl) { puts("bad-op"); continue; }
      rfbUpdateClient(conns[id].cl);
      vh_drain(&conns[id]);
      if (getenv("VH_HEX")) { printf("!hex "); vh_puthex(stdout, conns[id].out.p, conns[id].out.n > 200 ? 200 : conns[id].out.n); putchar('\n'); }
      apply_updates(id);
      oracle_inv(id);
    } else if (!strcmp(tok[0], "state") && n == 2) {
      int id = atoi(tok[1]); rfbClientPtr cl;
      if (id < 0 || id >= MAXC || !used[id] || !conns[id].cl) { puts("bad-op"); continue; }
      cl = conns[id].cl;
      printf("M="); print_region(cl->modifiedRegion); printf(" C="); print_region(cl->copyRegion);
      printf(" R="); print_region(cl->requestedRegion); printf(" d=%d,%d\n", cl->copyDX, cl->copyDY);
      oracle_inv(id);
    } else if (!strcmp(tok[0], "settled") && n == 2) {
      int id = atoi(tok[1]);
      if (id < 0 || id >= MAXC || !used[id] || !conns[id].cl) { puts("bad-op"); continue; }
      puts("ok");
      oracle_settled(id);
    } else puts("bad-op");
    fflush(stdout);
  }
  return 0;
}
