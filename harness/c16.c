/* C16 harness: replacing the framebuffer (rfbNewFramebuffer) on the real server.
 *
 * ops (same script goes to Driver/C16.lean):
 *   screen W H B                 real screen, B = bytes per pixel (1|2|4)
 *   cursor w h xhot yhot         rfbSetCursor (X cursor, all mask bits set)
 *   client N                     socketpair + handshake (picture = ServerInit size/format)
 *   setenc N cr cs sz            SetEncodings Raw [CopyRect] [XCursor] sz: 0 -, 1 NewFBSize, 2 ExtDesktopSize, 3 both
 *   setpf N B                    SetPixelFormat to the canonical true-colour format of B bytes
 *   setscale N k                 rfbSetScale
 *   ptr N x y                    PointerEvent (no buttons)
 *   draw x1 y1 x2 y2 seed | mark x1 y1 x2 y2 | copyrgn dx dy x1 y1 x2 y2 [...]
 *   hook mode code               setDesktopSizeHook: mode 0 library default, 1 return code, 2 code==0 -> resize now
 *   sds N w h ns                 SetDesktopSize message with ns screens
 *   newfb W H B seed             new buffer, rfbNewFramebuffer, old buffer FREED at once
 *   req N incr x y w h | update N | state N
 * Lines starting with '!' are direct-oracle lines (model independent). */
#include "sess.h"
#include <rfb/rfbregion.h>
#include <signal.h>

extern void (*rfbVerifPreEncodeHook)(rfbClientPtr, sraRegionPtr, sraRegionPtr, int, int);

#define MAXC 8
#define NOPIX 0xFFFFFFFFu
static rfbScreenInfoPtr scr;
static int W, H, B;                 /* what the application installed last */
typedef struct {
  int used, fmt, pw, ph, cap, scaled;
  int needfull;                     /* the client's picture was invalidated by its own SetScale and it has not yet asked for everything again */
  uint32_t *pic;
  int told_w, told_h;               /* last size the client was told (ServerInit / size message / ResizeFrameBuffer) */
  int stale;                        /* resize-capable client: framebuffer replaced, size message not yet seen */
} hclient;
static hclient hc[MAXC];
static vh_conn conns[MAXC];
static uint32_t drawctr = 1;
static int hook_mode = 0, hook_code = 0, hook_calls = 0, hook_last_ns = -1;
static int peergone[MAXC];          /* the harness closed its end of the connection */
static int nscr_hook = -1, extfail = -1;   /* application's screen-layout hooks: count reported, index at which the per-screen hook fails */
static int df_on = 0, df_calls = 0, df_last = -1;

/* pre-encode snapshot (of the buffer the encoders read: the client's scaled screen) */
static unsigned char *snap; static int snap_w, snap_h, snap_b, snap_valid;
static rfbClientPtr snap_cl;

static uint32_t pixhash(uint32_t seed, int x, int y) {
  uint64_t z = ((uint64_t)seed << 40) ^ ((uint64_t)(uint32_t)x << 20) ^ (uint32_t)y;
  z = (z ^ (z >> 30)) * 0xBF58476D1CE4E5B9ull; z = (z ^ (z >> 27)) * 0x94D049BB133111EBull;
  return (uint32_t)(z ^ (z >> 31));
}
static uint32_t pixmask(int b) { return b == 1 ? 0xFFu : b == 2 ? 0x7FFFu : 0xFFFFFFu; }
static uint32_t getpix(const unsigned char *p, int b) {
  if (b == 1) return p[0];
  if (b == 2) { uint16_t v; memcpy(&v, p, 2); return v; }
  if (b == 3) return (uint32_t)p[0] | ((uint32_t)p[1] << 8) | ((uint32_t)p[2] << 16);
  { uint32_t v; memcpy(&v, p, 4); return v; }
}
static void putpix(unsigned char *p, int b, uint32_t v) {
  if (b == 1) p[0] = (unsigned char)v;
  else if (b == 2) { uint16_t s = (uint16_t)v; memcpy(p, &s, 2); }
  else if (b == 3) { p[0] = v & 255; p[1] = (v >> 8) & 255; p[2] = (v >> 16) & 255; }
  else memcpy(p, &v, 4);
}
/* canonical true-colour formats (what rfbInitServerFormat produces on a little-endian host) */
static void fmt_of(int b, int *rm, int *gm, int *bm, int *rs, int *gs, int *bs) {
  if (b == 1) { *rm = 7; *gm = 7; *bm = 3; *rs = 0; *gs = 3; *bs = 6; }
  else if (b == 2) { *rm = *gm = *bm = 31; *rs = 0; *gs = 5; *bs = 10; }
  else { *rm = *gm = *bm = 255; *rs = 0; *gs = 8; *bs = 16; }
}
/* reference pixel translation: the colour-scaling rule, independent of the library's tables */
static uint32_t xl(uint32_t v, int s, int c) {
  int rm, gm, bm, rs, gs, bs, RM, GM, BM, RS, GS, BS; uint32_t r, g, b;
  if (s == c || (s >= 3 && c >= 3)) return v & 0xFFFFFFu;
  fmt_of(s, &rm, &gm, &bm, &rs, &gs, &bs); fmt_of(c, &RM, &GM, &BM, &RS, &GS, &BS);
  r = (v >> rs) & rm; g = (v >> gs) & gm; b = (v >> bs) & bm;
  r = (r * RM + rm / 2) / rm; g = (g * GM + gm / 2) / gm; b = (b * BM + bm / 2) / bm;
  return (r << RS) | (g << GS) | (b << BS);
}

static void fill(char *fb, int w, int h, int b, uint32_t seed) {
  int x, y;
  for (y = 0; y < h; y++) for (x = 0; x < w; x++)
    putpix((unsigned char *)fb + ((size_t)y * w + x) * b, b, pixhash(seed, x, y) & pixmask(b));
}

static void print_region(sraRegionPtr r) {
  sraRectangleIterator *i = sraRgnGetIterator(r); sraRect rc; int first = 1;
  putchar('[');
  while (sraRgnIteratorNext(i, &rc)) {
    printf("%s%d,%d,%d,%d", first ? "" : ";", rc.x1, rc.y1, rc.x2, rc.y2); first = 0;
  }
  sraRgnReleaseIterator(i);
  putchar(']');
}

static unsigned char *mask_of(sraRegionPtr r, int w, int h, int *outside) {
  unsigned char *m = (unsigned char *)calloc((size_t)w * h + 1, 1);
  sraRectangleIterator *i = sraRgnGetIterator(r); sraRect rc; int x, y;
  while (sraRgnIteratorNext(i, &rc)) {
    if (rc.x1 < 0 || rc.y1 < 0 || rc.x2 > w || rc.y2 > h) (*outside)++;
    for (y = rc.y1; y < rc.y2; y++) for (x = rc.x1; x < rc.x2; x++)
      if (x >= 0 && y >= 0 && x < w && y < h) m[y * w + x] = 1;
  }
  sraRgnReleaseIterator(i);
  return m;
}

static void repic(int n, int w, int h) {
  size_t i, k = (size_t)w * h;
  free(hc[n].pic);
  hc[n].pic = (uint32_t *)malloc(k * 4 + 4);
  for (i = 0; i < k; i++) hc[n].pic[i] = NOPIX;
  hc[n].pw = w; hc[n].ph = h;
}

static int live(int id) { return id >= 0 && id < MAXC && hc[id].used && conns[id].cl && conns[id].cl->sock != RFB_INVALID_SOCKET; }
/* the client can still speak */
static int talk(int id) { return live(id) && !peergone[id]; }

/* is (x,y) inside the clipped soft-cursor box at the client's cursor position? */
static int in_cursor_box(rfbClientPtr cl, int x, int y) {
  rfbCursorPtr c = scr->cursor; int x1, y1, x2, y2;
  if (!c || cl->enableCursorShapeUpdates) return 0;
  x1 = cl->cursorX - c->xhot; y1 = cl->cursorY - c->yhot; x2 = x1 + c->width; y2 = y1 + c->height;
  return x >= x1 && x < x2 && y >= y1 && y < y2;
}

/* convergence invariant on the implementation's own state and the decoded picture.
 * unscaled client whose picture has the screen's size: p not in M -> (p in C -> fb p = pic (p-d)) and
 * (p not in C -> fb p = pic p), fb taken through the reference translation; scaled client: when
 * nothing is pending the picture equals the (translated) scaled buffer. */
static void oracle_inv(int n) {
  rfbClientPtr cl = conns[n].cl; unsigned char *m, *c; int x, y, bad = 0, bx = -1, by = -1, outside = 0, idle;
  if (!live(n)) return;
  if (hc[n].needfull) { printf("!inv %d skip awaiting the client's full request after its SetScale\n", n); return; }
  idle = sraRgnEmpty(cl->modifiedRegion) && sraRgnEmpty(cl->copyRegion);
  m = mask_of(cl->modifiedRegion, scr->width, scr->height, &outside);
  c = mask_of(cl->copyRegion, scr->width, scr->height, &outside);
  if (outside) printf("!inv %d FAIL modified/copy region leaves the %dx%d screen\n", n, scr->width, scr->height);
  if (cl->scaledScreen != scr) {
    rfbScreenInfoPtr ss = cl->scaledScreen; int sb = ss->bitsPerPixel / 8;
    if (sb != scr->serverFormat.bitsPerPixel / 8 || ss->width > scr->width || ss->height > scr->height || ss->width < 1 || ss->height < 1)
      printf("!ss %d FAIL scaled version %dx%d/%d bytes does not fit the %dx%d/%d screen\n", n, ss->width, ss->height, sb, scr->width, scr->height, scr->serverFormat.bitsPerPixel / 8);
    if (idle && hc[n].pw == ss->width && hc[n].ph == ss->height) {
      for (y = 0; y < ss->height; y++) for (x = 0; x < ss->width; x++) {
        uint32_t want = xl(getpix((unsigned char *)ss->frameBuffer + (size_t)y * ss->paddedWidthInBytes + (size_t)x * sb, sb), scr->serverFormat.bitsPerPixel / 8, hc[n].fmt);
        if (hc[n].pic[y * hc[n].pw + x] != want) { if (!bad) { bx = x; by = y; } bad++; }
      }
      if (bad) printf("!inv %d FAIL scaled pixels=%d first=%d,%d\n", n, bad, bx, by);
      else printf("!inv %d ok idle=1 scaled\n", n);
    } else printf("!inv %d skip scaled idle=%d pic=%dx%d ss=%dx%d\n", n, idle, hc[n].pw, hc[n].ph, ss->width, ss->height);
  } else if (hc[n].pw != scr->width || hc[n].ph != scr->height) {
    /* the client does not yet know the geometry: nothing may be claimed to be up to date */
    int miss = 0;
    for (y = 0; y < scr->height; y++) for (x = 0; x < scr->width; x++) if (!m[y * scr->width + x]) miss++;
    if (miss) printf("!inv %d FAIL picture is %dx%d, screen %dx%d, but %d pixels are not scheduled\n", n, hc[n].pw, hc[n].ph, scr->width, scr->height, miss);
    else printf("!inv %d ok untold\n", n);
  } else {
    int w = scr->width, h = scr->height, sb = scr->serverFormat.bitsPerPixel / 8;
    for (y = 0; y < h; y++) for (x = 0; x < w; x++) {
      uint32_t want;
      if (m[y * w + x] || in_cursor_box(cl, x, y)) continue;
      want = xl(getpix((unsigned char *)scr->frameBuffer + (size_t)y * scr->paddedWidthInBytes + (size_t)x * sb, sb), sb, hc[n].fmt);
      if (c[y * w + x]) {
        int sx = x - cl->copyDX, sy = y - cl->copyDY;
        if (sx < 0 || sy < 0 || sx >= w || sy >= h || want != hc[n].pic[sy * w + sx]) { if (!bad) { bx = x; by = y; } bad++; }
      } else if (want != hc[n].pic[y * w + x]) { if (!bad) { bx = x; by = y; } bad++; }
    }
    if (bad) printf("!inv %d FAIL pixels=%d first=%d,%d\n", n, bad, bx, by);
    else printf("!inv %d ok idle=%d\n", n, idle);
  }
  free(m); free(c);
}

/* directly after a replacement every scaled version in use must be the reduced NEW framebuffer
 * (format, size, contents: reference box filter over the blocks ScaleX/ScaleY assign) */
static void check_scaled(int n) {
  rfbScreenInfoPtr ss = conns[n].cl->scaledScreen; int sb = ss->bitsPerPixel / 8;
  if (ss == scr) return;
    if (sb != scr->serverFormat.bitsPerPixel / 8 || ss->width > scr->width || ss->height > scr->height || ss->width < 1 || ss->height < 1)
      printf("!ss %d FAIL scaled version %dx%d/%d bytes does not fit the %dx%d/%d screen\n", n, ss->width, ss->height, sb, scr->width, scr->height, scr->serverFormat.bitsPerPixel / 8);
    else {
      int rm, gm, bm, rs, gs, bs, ax = scr->width / ss->width, ay = scr->height / ss->height, X, Y, i, j, nb = 0;
      fmt_of(sb, &rm, &gm, &bm, &rs, &gs, &bs);
      for (Y = 0; Y < ss->height; Y++) for (X = 0; X < ss->width; X++) {
        unsigned long r = 0, g = 0, b = 0; uint32_t want, got;
        int sx = (int)((long long)X * scr->width / ss->width), sy = (int)((long long)Y * scr->height / ss->height);
        for (j = 0; j < ay; j++) for (i = 0; i < ax; i++) {
          uint32_t v = getpix((unsigned char *)scr->frameBuffer + (size_t)(sy + j) * scr->paddedWidthInBytes + (size_t)(sx + i) * sb, sb);
          r += (v >> rs) & rm; g += (v >> gs) & gm; b += (v >> bs) & bm;
        }
        r /= (unsigned long)(ax * ay); g /= (unsigned long)(ax * ay); b /= (unsigned long)(ax * ay);
        want = (uint32_t)(((r & rm) << rs) | ((g & gm) << gs) | ((b & bm) << bs));
        got = getpix((unsigned char *)ss->frameBuffer + (size_t)Y * ss->paddedWidthInBytes + (size_t)X * sb, sb);
        if (want != got) nb++;
      }
      if (nb) printf("!ss %d FAIL %d pixels of the %dx%d scaled version are not the reduced framebuffer\n", n, nb, ss->width, ss->height);
    }
}

static void pre_encode(rfbClientPtr cl, sraRegionPtr upd, sraRegionPtr cpy, int dx, int dy) {
  rfbScreenInfoPtr ss = cl->scaledScreen; int b = ss->bitsPerPixel / 8, y;
  (void)upd; (void)cpy; (void)dx; (void)dy;
  free(snap);
  snap = (unsigned char *)malloc((size_t)ss->width * ss->height * b + 1);
  for (y = 0; y < ss->height; y++)
    memcpy(snap + (size_t)y * ss->width * b, ss->frameBuffer + (size_t)y * ss->paddedWidthInBytes, (size_t)ss->width * b);
  snap_w = ss->width; snap_h = ss->height; snap_b = b; snap_valid = 1; snap_cl = cl;
}

#include <stdarg.h>
static vh_buf plainb, orcb;
static void P(const char *fmt, ...) { char t[512]; va_list ap; va_start(ap, fmt); vsnprintf(t, sizeof t, fmt, ap); va_end(ap); vh_buf_add(&plainb, t, strlen(t)); }
static void O(const char *fmt, ...) { char t[512]; va_list ap; va_start(ap, fmt); vsnprintf(t, sizeof t, fmt, ap); va_end(ap); vh_buf_add(&orcb, t, strlen(t)); vh_buf_add(&orcb, "\n", 1); }

static uint16_t be16(const unsigned char *p) { return (uint16_t)((p[0] << 8) | p[1]); }
static uint32_t be32(const unsigned char *p) { return ((uint32_t)p[0] << 24) | (p[1] << 16) | (p[2] << 8) | p[3]; }

static void told(int n, int w, int h) {
  hc[n].told_w = w; hc[n].told_h = h; hc[n].stale = 0;
  if (w != hc[n].pw || h != hc[n].ph) repic(n, w, h);
}

/* parse + apply every complete server message in c->out; prints one summary line */
static void apply_msgs(int n) {
  vh_conn *c = &conns[n]; int printed = 0; int sb = scr->serverFormat.bitsPerPixel / 8, cb = hc[n].fmt;
  while (c->out.n >= 1) {
    unsigned char *p = c->out.p; size_t off, k; unsigned nrects, cs = 0;
    vh_buf line = {0}; char tmp[160]; int ok = 1, sized = 0, pixels = 0;
    if (p[0] == 4) {                                   /* ResizeFrameBuffer (UltraVNC scaling) */
      if (c->out.n < 6) break;
      P("%srsz %d %d", printed ? " | " : "", be16(p + 2), be16(p + 4)); printed++;
      told(n, be16(p + 2), be16(p + 4));
      vh_buf_consume(&c->out, 6);
      continue;
    }
    if (p[0] == 1) {                                   /* SetColourMapEntries (colour-map client: BGR233 palette) */
      unsigned first, ncol;
      if (c->out.n < 6) break;
      first = be16(p + 2); ncol = be16(p + 4);
      if (c->out.n < 6 + 6 * (size_t)ncol) break;
      P("%scmap %u %u", printed ? " | " : "", first, ncol); printed++;
      vh_buf_consume(&c->out, 6 + 6 * (size_t)ncol);
      continue;
    }
    if (p[0] != 0) { O("!wire %d unexpected message type %d", n, p[0]); c->out.n = 0; break; }
    if (c->out.n < 4) break;
    nrects = be16(p + 2); off = 4;
    {
      vh_buf copies = {0}, raws = {0};
      for (k = 0; k < nrects; k++) {
        int x, y, w, h; int32_t enc;
        if (c->out.n < off + 12) { ok = 0; break; }
        x = be16(p + off); y = be16(p + off + 2); w = be16(p + off + 4); h = be16(p + off + 6);
        enc = (int32_t)be32(p + off + 8); off += 12;
        if (enc == 0) {
          size_t len = (size_t)w * h * cb; int i, j, badpix = 0;
          if (c->out.n < off + len) { ok = 0; break; }
          pixels = 1;
          if (hc[n].stale) O("!order %d FAIL pixel rectangle %d,%d,%d,%d before the size message", n, x, y, w, h);
          if (w == 0 || h == 0 || x + w > hc[n].told_w || y + h > hc[n].told_h) O("!rect %d FAIL raw %d,%d,%d,%d outside the size the client was told (%dx%d)", n, x, y, w, h, hc[n].told_w, hc[n].told_h);
          if (x + w > conns[n].cl->scaledScreen->width || y + h > conns[n].cl->scaledScreen->height) O("!rect %d FAIL raw %d,%d,%d,%d outside the new size %dx%d", n, x, y, w, h, conns[n].cl->scaledScreen->width, conns[n].cl->scaledScreen->height);
          for (j = 0; j < h; j++) for (i = 0; i < w; i++) {
            uint32_t v = getpix(p + off + ((size_t)j * w + i) * cb, cb);
            if (x + i < hc[n].pw && y + j < hc[n].ph) hc[n].pic[(y + j) * hc[n].pw + x + i] = v;
            if (snap_valid && snap_cl == conns[n].cl && x + i < snap_w && y + j < snap_h) {
              if (v != xl(getpix(snap + ((size_t)(y + j) * snap_w + x + i) * snap_b, snap_b), sb, cb)) badpix++;
            } else badpix++;
          }
          if (badpix) O("!pix %d FAIL raw %d,%d,%d,%d: %d pixels are not the translated framebuffer contents (server %d -> client %d bytes)", n, x, y, w, h, badpix, sb, cb);
          off += len;
          sprintf(tmp, "%s%d,%d,%d,%d", raws.n ? ";" : "", x, y, x + w, y + h); vh_buf_add(&raws, tmp, strlen(tmp));
        } else if (enc == 1) {
          int sx, sy, j, pw = hc[n].pw, ph = hc[n].ph;
          if (c->out.n < off + 4) { ok = 0; break; }
          sx = be16(p + off); sy = be16(p + off + 2); off += 4;
          pixels = 1;
          if (hc[n].stale) O("!order %d FAIL copy rectangle before the size message", n);
          if (w == 0 || h == 0 || x + w > hc[n].told_w || y + h > hc[n].told_h || sx + w > hc[n].told_w || sy + h > hc[n].told_h) O("!rect %d FAIL copyrect %d,%d,%d,%d from %d,%d outside the size the client was told (%dx%d)", n, x, y, w, h, sx, sy, hc[n].told_w, hc[n].told_h);
          if (x + w > pw || y + h > ph || sx + w > pw || sy + h > ph) { /* cannot be applied */ }
          else if (sy >= y) for (j = 0; j < h; j++) memmove(&hc[n].pic[(y + j) * pw + x], &hc[n].pic[(sy + j) * pw + sx], (size_t)w * 4);
          else for (j = h - 1; j >= 0; j--) memmove(&hc[n].pic[(y + j) * pw + x], &hc[n].pic[(sy + j) * pw + sx], (size_t)w * 4);
          sprintf(tmp, "%s%d,%d,%d,%d,%d,%d", copies.n ? ";" : "", x, y, w, h, sx, sy); vh_buf_add(&copies, tmp, strlen(tmp));
        } else if (enc == (int32_t)0xFFFFFF10) {           /* XCursor */
          size_t len = (w * h) ? 6 + 2 * (size_t)((w + 7) / 8) * h : 0;
          if (c->out.n < off + len) { ok = 0; break; }
          off += len; cs = 1;
        } else if (enc == (int32_t)0xFFFFFF21) {           /* NewFBSize */
          if (pixels) O("!order %d FAIL size message after pixel data in one update", n);
          if (x || y) O("!wire %d FAIL NewFBSize rectangle with position %d,%d (must be 0,0)", n, x, y);
          sprintf(tmp, "size %d %d", w, h); vh_buf_add(&line, tmp, strlen(tmp));
          told(n, w, h); sized = 1;
        } else if (enc == (int32_t)0xFFFFFECC) {           /* ExtendedDesktopSize: x = reason, y = status */
          unsigned ns, s;
          if (c->out.n < off + 4) { ok = 0; break; }
          ns = p[off]; off += 4;
          if (nscr_hook >= 0) {            /* the count byte is the application's count modulo 256 */
            if (ns != (unsigned)(nscr_hook & 255)) O("!wire %d screen count byte %u for %d screens", n, ns, nscr_hook);
            ns = (unsigned)nscr_hook;
          }
          if (c->out.n < off + 16 * (size_t)ns) { ok = 0; break; }
          if (pixels) O("!order %d FAIL size message after pixel data in one update", n);
          sprintf(tmp, "ext r=%d s=%d %d %d [", x, y, w, h); vh_buf_add(&line, tmp, strlen(tmp));
          if (ns > 2) { sprintf(tmp, "n=%u;", ns); vh_buf_add(&line, tmp, strlen(tmp)); }
          for (s = 0; s < ns; s++) {
            const unsigned char *q = p + off + 16 * s;
            /* the layout the application's hooks supply (library default: one screen = the whole area) must
               arrive unaltered */
            { uint32_t wid = nscr_hook >= 0 ? s + 1 : 1, wfl = nscr_hook >= 0 ? s + 7 : 0; int wx = nscr_hook >= 0 ? (int)s : 0, wy = nscr_hook >= 0 ? (int)(2 * s + 1) : 0;
              if (be32(q) != wid || be16(q + 4) != wx || be16(q + 6) != wy || be16(q + 8) != w || be16(q + 10) != h || be32(q + 12) != wfl)
                O("!wire %d FAIL screen %u of the ExtendedDesktopSize is %u,%d,%d,%d,%d,%u", n, s, be32(q), be16(q + 4), be16(q + 6), be16(q + 8), be16(q + 10), be32(q + 12)); }
            if (ns > 2 && s != 0 && s != ns - 1) continue;
            sprintf(tmp, "%s%u,%d,%d,%d,%d,%u", (s && ns <= 2) || (ns > 2 && s) ? ";" : "", be32(q), be16(q + 4), be16(q + 6), be16(q + 8), be16(q + 10), be32(q + 12));
            vh_buf_add(&line, tmp, strlen(tmp));
          }
          vh_buf_add(&line, "]", 1);
          off += 16 * (size_t)ns;
          told(n, w, h); sized = 1;
        } else { O("!wire %d unexpected encoding %d", n, enc); c->out.n = 0; ok = 0; break; }
      }
      if (!ok) { free(copies.p); free(raws.p); free(line.p); break; }   /* incomplete message: wait for more */
      vh_buf_add(&copies, "", 1); vh_buf_add(&raws, "", 1); vh_buf_add(&line, "", 1);
      if (sized) {
        P("%s%s", printed ? " | " : "", (char *)line.p);
        if (nrects != 1) O("!order %d FAIL size message travels with %u rectangles", n, nrects);
      } else P("%sfbu cs=%u copies=[%s] raws=[%s]", printed ? " | " : "", cs, (char *)copies.p, (char *)raws.p);
      printed++;
      free(copies.p); free(raws.p); free(line.p);
    }
    vh_buf_consume(&c->out, off);
  }
  if (c->out.n) O("!wire %d %zu undecodable bytes left", n, c->out.n);
  if (!printed) puts("none"); else { vh_buf_add(&plainb, "", 1); puts((char *)plainb.p); }
  if (orcb.n) fwrite(orcb.p, 1, orcb.n, stdout);
  plainb.n = 0; orcb.n = 0;
  snap_valid = 0;
}

static int convert_cursor = 1;      /* newfbraw: the application does NOT touch the cursor after the replacement */
static void do_newfb(int w, int h, int b, uint32_t seed) {
  char *old = scr->frameBuffer, *nb = (char *)malloc((size_t)w * h * b + 1);
  int i, fmtchg = (b != B), cx0 = scr->cursorX, cy0 = scr->cursorY;
  fill(nb, w, h, b, seed);
  rfbNewFramebuffer(scr, nb, w, h, b == 2 ? 5 : 8, b == 1 ? 1 : 3, b);
  /* the pointer position: untouched if it is inside the new area, otherwise moved just inside it */
  if (scr->cursorX != (cx0 >= w ? w - 1 : cx0) || scr->cursorY != (cy0 >= h ? h - 1 : cy0))
    printf("!cursor FAIL pointer was at %d,%d, is at %d,%d after the replacement by a %dx%d framebuffer\n", cx0, cy0, scr->cursorX, scr->cursorY, w, h);
  free(old);                                            /* any later touch of the old buffer: ASan */
  W = w; H = h; B = b;
  /* "Rich cursor data should be converted to new pixel format by the caller" */
  if (convert_cursor && fmtchg && scr->cursor && scr->cursor->richSource) rfbMakeRichCursorFromXCursor(scr, scr->cursor);
  for (i = 0; i < MAXC; i++) {
    if (!live(i)) continue;
    check_scaled(i);
    hc[i].needfull = 0;
    if (conns[i].cl->useNewFBSize) hc[i].stale = 1;
    else { rfbScreenInfoPtr ss = conns[i].cl->scaledScreen;   /* cannot be told: the oracle uses the new size */
      hc[i].told_w = ss->width; hc[i].told_h = ss->height; repic(i, ss->width, ss->height); }
  }
}

/* what a conforming client does after changing its pixel format or scale: ask for everything again */
static void full_request(int id) {
  unsigned char m[10] = { 3, 0, 0, 0, 0, 0, 0xFF, 0xFF, 0xFF, 0xFF };
  if (!talk(id)) return;
  hc[id].needfull = 0;
  vh_send(&conns[id], m, 10);
  rfbProcessClientMessage(conns[id].cl);
}

static int my_sds_hook(int width, int height, int numScreens, rfbExtDesktopScreen *s, rfbClientPtr cl) {
  int i; volatile uint32_t sum = 0;
  (void)cl;
  hook_calls++; hook_last_ns = numScreens;
  for (i = 0; i < numScreens; i++) sum += s[i].id + s[i].x + s[i].y + s[i].width + s[i].height + s[i].flags;  /* touch all: ASan */
  if (hook_mode == 2 && hook_code == 0 && width > 0 && height > 0 && width <= 64 && height <= 64)
    do_newfb(width, height, B, 7777u + (uint32_t)hook_calls);
  return hook_code;
}
static rfbSetDesktopSizeHookPtr default_hook;
static rfbNumberOfExtDesktopScreensPtr default_nscr;
static rfbGetExtDesktopScreenPtr default_getscr;
static int my_nscr(rfbClientPtr cl) { (void)cl; return nscr_hook; }
static rfbBool my_getscr(int i, rfbExtDesktopScreen *s, rfbClientPtr cl) {
  if (extfail >= 0 && i == extfail) return FALSE;
  s->id = (uint32_t)i + 1; s->x = (uint16_t)i; s->y = (uint16_t)(2 * i + 1);
  s->width = cl->scaledScreen->width; s->height = cl->scaledScreen->height; s->flags = (uint32_t)i + 7;
  return TRUE;
}
static void my_df(rfbClientPtr cl, int result) { (void)cl; df_calls++; df_last = result; }

int main(void) {
  char *line, *tok[1024];
  rfbVerifPreEncodeHook = pre_encode;
  signal(SIGPIPE, SIG_IGN);
  while ((line = vh_readline())) {
    int n = vh_split(line, tok, 1024);
    int w0 = scr ? scr->width : 0, h0 = scr ? scr->height : 0, appresize = 0;
    if (n == 0 || tok[0][0] == '#') continue;
    if (!strcmp(tok[0], "screen") && n == 4 && !scr) {
      W = atoi(tok[1]); H = atoi(tok[2]); B = atoi(tok[3]);
      scr = vh_screen(W, H, B);
      default_hook = scr->setDesktopSizeHook;
      default_nscr = scr->numberOfExtDesktopScreensHook; default_getscr = scr->getExtDesktopScreenHook;
      fill(scr->frameBuffer, W, H, B, 0);
      puts("ok"); appresize = 1;
    } else if (!scr) { puts("bad-op");
    } else if (!strcmp(tok[0], "cursor") && n == 5) {
      int w = atoi(tok[1]), h = atoi(tok[2]); rfbCursorPtr c;
      char *bits = (char *)malloc((size_t)w * h + 1); memset(bits, 'x', (size_t)w * h); bits[w * h] = 0;
      c = rfbMakeXCursor(w, h, bits, bits); c->xhot = atoi(tok[3]); c->yhot = atoi(tok[4]);
      c->cleanup = TRUE;
      rfbSetCursor(scr, c); free(bits);
      puts("ok");
    } else if (!strcmp(tok[0], "client") && n == 2) {
      int id = atoi(tok[1]);
      if (id < 0 || id >= MAXC || hc[id].used) { puts("bad-op"); continue; }
      hc[id].used = 1;
      vh_connect_pre(scr, &conns[id], "RFB 003.008\n", 12);
      { unsigned char one = 1; rfbClientPtr cl = conns[id].cl;     /* handshake of THIS client only (no rfbProcessEvents: other clients must not be served here) */
        if (cl && cl->state == RFB_PROTOCOL_VERSION) rfbProcessClientMessage(cl);
        vh_send(&conns[id], &one, 1); rfbProcessClientMessage(cl);   /* security type None */
        vh_send(&conns[id], &one, 1); rfbProcessClientMessage(cl);   /* ClientInit, shared */
        vh_drain(&conns[id]); vh_buf_reset(&conns[id].out);
        if (!cl || cl->state != RFB_NORMAL) { puts("handshake-failed"); continue; } }
      hc[id].fmt = B; hc[id].pic = NULL; repic(id, W, H); hc[id].told_w = W; hc[id].told_h = H;
      puts("ok");
    } else if (!strcmp(tok[0], "setenc") && n == 5) {
      int id = atoi(tok[1]), cr = atoi(tok[2]), cs = atoi(tok[3]), sz = atoi(tok[4]); unsigned char m[4 + 24]; int k = 0, ne;
      if (!talk(id)) { puts("bad-op"); continue; }
      ne = 1 + !!cr + !!cs + !!(sz & 1) + !!(sz & 2);
      m[0] = 2; m[1] = 0; m[2] = 0; m[3] = (unsigned char)ne;
      memset(m + 4, 0, 4); k = 8;                                   /* Raw */
      if (cr) { m[k] = 0; m[k+1] = 0; m[k+2] = 0; m[k+3] = 1; k += 4; }
      if (cs) { m[k] = 0xFF; m[k+1] = 0xFF; m[k+2] = 0xFF; m[k+3] = 0x10; k += 4; }
      if (sz & 1) { m[k] = 0xFF; m[k+1] = 0xFF; m[k+2] = 0xFF; m[k+3] = 0x21; k += 4; }
      if (sz & 2) { m[k] = 0xFF; m[k+1] = 0xFF; m[k+2] = 0xFE; m[k+3] = 0xCC; k += 4; }
      vh_send(&conns[id], m, (size_t)k);
      rfbProcessClientMessage(conns[id].cl);
      hc[id].cap = sz;
      if (!conns[id].cl->useNewFBSize) {   /* without resize support a client cannot be told: the oracle uses the actual size (as in do_newfb) */
        rfbScreenInfoPtr ss = conns[id].cl->scaledScreen;
        hc[id].stale = 0; hc[id].told_w = ss->width; hc[id].told_h = ss->height;
        if (hc[id].pw != ss->width || hc[id].ph != ss->height) repic(id, ss->width, ss->height);
      }
      puts("ok");
    } else if (!strcmp(tok[0], "setpf") && n == 3) {
      /* b = 1,2,3,4: canonical true-colour format of b bytes; b = 0: 8-bit COLOUR-MAP client (the server
         answers with a BGR233 palette and treats it as true colour from then on) */
      int id = atoi(tok[1]), b = atoi(tok[2]), fb = b ? b : 1; unsigned char m[20]; int rm, gm, bm, rs, gs, bs;
      if (!talk(id) || b < 0 || b > 4) { puts("bad-op"); continue; }
      fmt_of(fb, &rm, &gm, &bm, &rs, &gs, &bs);
      memset(m, 0, sizeof m);
      m[0] = 0; m[4] = (unsigned char)(8 * fb); m[5] = (unsigned char)(8 * fb); m[6] = 0; m[7] = b ? 1 : 0;
      m[8] = rm >> 8; m[9] = rm & 255; m[10] = gm >> 8; m[11] = gm & 255; m[12] = bm >> 8; m[13] = bm & 255;
      m[14] = (unsigned char)rs; m[15] = (unsigned char)gs; m[16] = (unsigned char)bs;
      vh_send(&conns[id], m, 20);
      rfbProcessClientMessage(conns[id].cl);
      if (!live(id)) { puts("closed"); continue; }
      hc[id].fmt = fb;
      { size_t i, k = (size_t)hc[id].pw * hc[id].ph; for (i = 0; i < k; i++) hc[id].pic[i] = NOPIX; }   /* old contents are in the old format */
      vh_drain(&conns[id]);
      apply_msgs(id);                 /* "none", or the palette */
      full_request(id);
    } else if (!strcmp(tok[0], "setscale") && (n == 3 || n == 4)) {
      /* 4th argument 0: the viewer does NOT ask for a full update right away (it keeps whatever request is
         outstanding); the size message must reach it all the same */
      int id = atoi(tok[1]), rerequest = !(n == 4 && atoi(tok[3]) == 0); unsigned char m[4];
      if (!talk(id)) { puts("bad-op"); continue; }
      m[0] = 8; m[1] = (unsigned char)atoi(tok[2]); m[2] = 0; m[3] = 0;
      vh_send(&conns[id], m, 4);
      rfbProcessClientMessage(conns[id].cl);
      if (!live(id)) { puts("closed"); continue; }
      vh_drain(&conns[id]);
      hc[id].scaled = conns[id].cl->scaledScreen != scr;
      /* a scaled version this viewer has just picked up alone (newly made, or an idle one left over from
         an earlier scale - possibly from before a replacement) must be the reduced CURRENT framebuffer */
      if (conns[id].cl->scaledScreen != scr && conns[id].cl->scaledScreen->scaledScreenRefCount == 1) check_scaled(id);
      apply_msgs(id);
      if (rerequest) full_request(id); else hc[id].needfull = 1;
    } else if (!strcmp(tok[0], "ptr") && n == 4) {
      int id = atoi(tok[1]), x = atoi(tok[2]), y = atoi(tok[3]); unsigned char m[6];
      if (!talk(id)) { puts("bad-op"); continue; }
      m[0] = 5; m[1] = 0; m[2] = x >> 8; m[3] = x & 255; m[4] = y >> 8; m[5] = y & 255;
      vh_send(&conns[id], m, 6);
      rfbProcessClientMessage(conns[id].cl);
      puts("ok");
    } else if ((!strcmp(tok[0], "draw") && n == 6) || (!strcmp(tok[0], "mark") && n == 5)) {
      int x1 = atoi(tok[1]), y1 = atoi(tok[2]), x2 = atoi(tok[3]), y2 = atoi(tok[4]);
      if (tok[0][0] == 'd') {
        int xa = x1 < x2 ? x1 : x2, xb = x1 < x2 ? x2 : x1, ya = y1 < y2 ? y1 : y2, yb = y1 < y2 ? y2 : y1, x, y;
        uint32_t seed = (uint32_t)atoi(tok[5]) * 65536u + drawctr++;
        for (y = ya < 0 ? 0 : ya; y < yb && y < H; y++) for (x = xa < 0 ? 0 : xa; x < xb && x < W; x++)
          putpix((unsigned char *)scr->frameBuffer + ((size_t)y * W + x) * B, B, pixhash(seed, x, y) & pixmask(B));
      }
      rfbMarkRectAsModified(scr, x1, y1, x2, y2);
      puts("ok");
    } else if (!strcmp(tok[0], "copyrgn") && n >= 7 && (n - 3) % 4 == 0) {
      int dx = atoi(tok[1]), dy = atoi(tok[2]), k; sraRegionPtr rg = NULL;
      for (k = 3; k + 3 < n; k += 4) {
        sraRegionPtr r = sraRgnCreateRect(atoi(tok[k]), atoi(tok[k+1]), atoi(tok[k+2]), atoi(tok[k+3]));
        if (!rg) rg = r; else { sraRgnOr(rg, r); sraRgnDestroy(r); }
      }
      rfbDoCopyRegion(scr, rg, dx, dy);
      sraRgnDestroy(rg);
      puts("ok");
    } else if (!strcmp(tok[0], "hook") && n == 3) {
      hook_mode = atoi(tok[1]); hook_code = atoi(tok[2]);
      scr->setDesktopSizeHook = hook_mode ? my_sds_hook : default_hook;
      puts("ok");
    } else if (!strcmp(tok[0], "sds") && n == 5) {
      int id = atoi(tok[1]), w = atoi(tok[2]), h = atoi(tok[3]), ns = atoi(tok[4]), k, calls0 = hook_calls;
      unsigned char *m;
      if (!talk(id) || ns < 0 || ns > 255) { puts("bad-op"); continue; }
      m = (unsigned char *)calloc(8 + 16 * (size_t)ns + 1, 1);
      m[0] = 251; m[2] = w >> 8; m[3] = w & 255; m[4] = h >> 8; m[5] = h & 255; m[6] = (unsigned char)ns;
      for (k = 0; k < ns; k++) { unsigned char *q = m + 8 + 16 * k; q[3] = (unsigned char)(k + 1); q[8] = w >> 8; q[9] = w & 255; q[10] = h >> 8; q[11] = h & 255; }
      vh_send(&conns[id], m, 8 + 16 * (size_t)ns);
      free(m);
      rfbProcessClientMessage(conns[id].cl);
      appresize = (hook_mode == 2 && hook_code == 0 && hook_calls > calls0);
      if (hook_mode && ns > 0 && (hook_calls != calls0 + 1 || hook_last_ns != ns)) printf("!sds %d FAIL hook calls %d (screens seen %d, sent %d)\n", id, hook_calls - calls0, hook_last_ns, ns);
      if (ns == 0 && hook_calls != calls0) printf("!sds %d FAIL hook called for a request without screens\n", id);
      puts(live(id) ? "ok" : "closed");
    } else if ((!strcmp(tok[0], "newfb") || !strcmp(tok[0], "newfbraw")) && n == 5) {
      convert_cursor = strcmp(tok[0], "newfbraw") != 0;
      int w = atoi(tok[1]), h = atoi(tok[2]), b = atoi(tok[3]);
      if (w < 1 || h < 1 || b < 1 || b > 4) { puts("bad-op"); continue; }
      do_newfb(w, h, b, (uint32_t)atoi(tok[4]) + 100000u);
      puts("ok"); appresize = 1;
    } else if (!strcmp(tok[0], "req") && n == 7) {
      int id = atoi(tok[1]); unsigned char m[10]; int x = atoi(tok[3]), y = atoi(tok[4]), w = atoi(tok[5]), h = atoi(tok[6]);
      if (!talk(id)) { puts("bad-op"); continue; }
      if (!atoi(tok[2]) && x == 0 && y == 0 && w >= conns[id].cl->scaledScreen->width && h >= conns[id].cl->scaledScreen->height) hc[id].needfull = 0;
      m[0] = 3; m[1] = (unsigned char)atoi(tok[2]);
      m[2] = x >> 8; m[3] = x & 255; m[4] = y >> 8; m[5] = y & 255; m[6] = w >> 8; m[7] = w & 255; m[8] = h >> 8; m[9] = h & 255;
      vh_send(&conns[id], m, 10);
      rfbProcessClientMessage(conns[id].cl);
      puts("ok");
    } else if (!strcmp(tok[0], "update") && n == 2) {
      int id = atoi(tok[1]), due, calls0 = df_calls, hookfailed = 0; rfbClientPtr cl;
      if (!live(id)) { puts("bad-op"); continue; }
      cl = conns[id].cl;
      snap_valid = 0;
      due = FB_UPDATE_PENDING(cl) && !sraRgnEmpty(cl->requestedRegion);   /* rfbUpdateClient's own condition, for the hook oracle */
      if (due && cl->useNewFBSize && cl->newFBSizePending && cl->useExtDesktopSize && nscr_hook >= 0 && extfail >= 0 && extfail < nscr_hook) {
        /* the APPLICATION's screen hook will fail: the library drops the size message; the oracle treats the
           client from here on like one that cannot be told (the new size is used) */
        rfbScreenInfoPtr ss = cl->scaledScreen;
        hc[id].stale = 0; hc[id].told_w = ss->width; hc[id].told_h = ss->height;
        if (hc[id].pw != ss->width || hc[id].ph != ss->height) repic(id, ss->width, ss->height);
        hookfailed = 1;
      }
      rfbUpdateClient(cl);
      if (df_on && hookfailed && df_calls - calls0 == 1 && df_last != FALSE)
        printf("!df %d FAIL update whose size message was dropped reported as finished successfully\n", id);
      if (df_on && (df_calls - calls0 != (due ? 1 : 0)))
        printf("!df %d FAIL displayFinishedHook ran %d times for %s update\n", id, df_calls - calls0, due ? "a due" : "no");
      if (conns[id].cl && conns[id].cl->sock == RFB_INVALID_SOCKET) {
        /* the write failed (peer gone): the connection is closed, nothing more is ever sent */
        if (!peergone[id]) printf("!close %d FAIL server closed a healthy connection\n", id);
        if (df_on && due && df_last != FALSE) printf("!df %d FAIL failed update reported as finished successfully\n", id);
        puts("closed");
        continue;
      }
      vh_drain(&conns[id]);
      if (getenv("VH_HEX")) { printf("!hex "); vh_puthex(stdout, conns[id].out.p, conns[id].out.n > 200 ? 200 : conns[id].out.n); putchar('\n'); }
      apply_msgs(id);
      oracle_inv(id);
    } else if (!strcmp(tok[0], "close") && n == 2) {
      /* the viewer goes away (the server notices at its next write or read) */
      int id = atoi(tok[1]);
      if (!talk(id)) { puts("bad-op"); continue; }
      vh_drain(&conns[id]); vh_buf_reset(&conns[id].out);
      close(conns[id].peer); conns[id].peer = -1; peergone[id] = 1;
      puts("ok");
    } else if (!strcmp(tok[0], "reap") && n == 2) {
      /* what the event loop does with a closed client */
      int id = atoi(tok[1]);
      if (id < 0 || id >= MAXC || !hc[id].used || !conns[id].cl || conns[id].cl->sock != RFB_INVALID_SOCKET) { puts("bad-op"); continue; }
      rfbClientConnectionGone(conns[id].cl);
      if (conns[id].cl) printf("!reap %d FAIL client record still referenced\n", id);
      puts("ok");
    } else if (!strcmp(tok[0], "sdstrunc") && (n == 4 || n == 5)) {
      /* SetDesktopSize for ns screens of which only the first `cut` bytes arrive, then the viewer is gone;
         5th argument 1: it goes away with unread data in its queue (the server's read fails with ECONNRESET
         instead of seeing end-of-file) */
      int id = atoi(tok[1]), cut = atoi(tok[2]), ns = atoi(tok[3]), calls0 = hook_calls, rst = n == 5 && atoi(tok[4]); unsigned char *m; size_t tot;
      if (!talk(id) || ns < 0 || ns > 255) { puts("bad-op"); continue; }
      tot = 8 + 16 * (size_t)ns;
      if (cut < 0 || (size_t)cut >= tot) { puts("bad-op"); continue; }
      m = (unsigned char *)calloc(tot + 1, 1);
      m[0] = 251; m[3] = 9; m[5] = 7; m[6] = (unsigned char)ns;
      if (cut) vh_send(&conns[id], m, (size_t)cut);
      free(m);
      vh_drain(&conns[id]); vh_buf_reset(&conns[id].out);
      if (rst) { unsigned char bell = 2; if (write(conns[id].cl->sock, &bell, 1) != 1) printf("!sds %d cannot queue data\n", id); }
      close(conns[id].peer); conns[id].peer = -1; peergone[id] = 1;
      rfbProcessClientMessage(conns[id].cl);
      if (hook_calls != calls0) printf("!sds %d FAIL hook called for a truncated request\n", id);
      puts(live(id) ? "open" : "closed");
    } else if (!strcmp(tok[0], "nscr") && n == 2) {
      /* the application's screen layout: K screens (K < 0: the library's default hooks) */
      nscr_hook = atoi(tok[1]);
      if (nscr_hook < 0) { nscr_hook = -1; scr->numberOfExtDesktopScreensHook = default_nscr; scr->getExtDesktopScreenHook = default_getscr; }
      else { scr->numberOfExtDesktopScreensHook = my_nscr; scr->getExtDesktopScreenHook = my_getscr; }
      puts("ok");
    } else if (!strcmp(tok[0], "extfail") && n == 2) {
      extfail = atoi(tok[1]);        /* index at which the per-screen hook fails; -1: never (needs nscr >= 0) */
      puts("ok");
    } else if (!strcmp(tok[0], "dfhook") && n == 2) {
      df_on = atoi(tok[1]); scr->displayFinishedHook = df_on ? my_df : NULL;
      puts("ok");
    } else if (!strcmp(tok[0], "emit") && n == 4) {
      /* the size-message emitters called directly with a partly filled update buffer (their flush rule) */
      int id = atoi(tok[1]), kind = atoi(tok[2]), ub = atoi(tok[3]), ok, ub1; rfbClientPtr cl; size_t need, got;
      if (!live(id) || ub < 0 || ub > UPDATE_BUF_SIZE) { puts("bad-op"); continue; }
      cl = conns[id].cl;
      if (peergone[id]) {
        /* viewer gone: a needed flush fails inside the emitter (FALSE, connection closed); otherwise the
           harness' own flush afterwards fails */
        memset(cl->updateBuf, 0, (size_t)ub); cl->ublen = ub;
        ok = kind ? rfbSendExtDesktopSize(cl, cl->scaledScreen->width, cl->scaledScreen->height)
                  : rfbSendNewFBSize(cl, cl->scaledScreen->width, cl->scaledScreen->height);
        ub1 = cl->ublen;
        if (cl->sock != RFB_INVALID_SOCKET) rfbSendUpdateBuf(cl);
        printf("emit ok=%d ub=%d %s\n", !!ok, ub1, cl->sock == RFB_INVALID_SOCKET ? "closed" : "open");
        continue;
      }
      vh_drain(&conns[id]); vh_buf_reset(&conns[id].out);
      memset(cl->updateBuf, 0, (size_t)ub); cl->ublen = ub;
      ok = kind ? rfbSendExtDesktopSize(cl, cl->scaledScreen->width, cl->scaledScreen->height)
                : rfbSendNewFBSize(cl, cl->scaledScreen->width, cl->scaledScreen->height);
      ub1 = cl->ublen;
      if (ub1 < 0 || ub1 > UPDATE_BUF_SIZE) printf("!emit %d FAIL ublen %d outside the update buffer\n", id, ub1);
      rfbSendUpdateBuf(cl);
      vh_drain(&conns[id]); got = conns[id].out.n;
      need = kind ? 12 + 4 + 16 * (size_t)(nscr_hook >= 0 ? nscr_hook : 1) : 12;
      if (ok && got != (size_t)ub + need) printf("!emit %d FAIL %zu bytes on the wire, expected %zu\n", id, got, (size_t)ub + need);
      if (ok && got >= need) {
        const unsigned char *q = conns[id].out.p + got - need;
        if ((int32_t)be32(q + 8) != (kind ? (int32_t)0xFFFFFECC : (int32_t)0xFFFFFF21) || be16(q + 4) != cl->scaledScreen->width || be16(q + 6) != cl->scaledScreen->height)
          printf("!emit %d FAIL rectangle header damaged\n", id);
      }
      vh_buf_reset(&conns[id].out);
      printf("emit ok=%d ub=%d\n", !!ok, ub1);
    } else if (!strcmp(tok[0], "state") && n == 2) {
      int id = atoi(tok[1]); rfbClientPtr cl;
      if (!live(id)) { puts("bad-op"); continue; }
      cl = conns[id].cl;
      printf("M="); print_region(cl->modifiedRegion); printf(" C="); print_region(cl->copyRegion);
      printf(" R="); print_region(cl->requestedRegion);
      printf(" d=%d,%d nf=%d ex=%d p=%d rq=%d er=%d cur=%d,%d xl=%s fmt=%d scr=%d,%d,%d,%d,%d ss=%d,%d\n", cl->copyDX, cl->copyDY,
             !!cl->useNewFBSize, !!cl->useExtDesktopSize, !!cl->newFBSizePending, cl->requestedDesktopSizeChange,
             cl->lastDesktopSizeChangeError, cl->cursorX, cl->cursorY, cl->translateFn == rfbTranslateNone ? "none" : "tab",
             cl->format.bitsPerPixel / 8, scr->width, scr->height, scr->serverFormat.bitsPerPixel / 8, scr->cursorX, scr->cursorY,
             cl->scaledScreen->width, cl->scaledScreen->height);
      if (scr->frameBuffer == NULL || scr->paddedWidthInBytes != scr->width * (scr->serverFormat.bitsPerPixel / 8)) printf("!scr FAIL inconsistent screen record\n");
      oracle_inv(id);
    } else puts("bad-op");
    if (scr && !appresize && (scr->width != w0 || scr->height != h0))
      printf("!size FAIL %s changed the screen size %dx%d -> %dx%d without the application\n", tok[0], w0, h0, scr->width, scr->height);
    fflush(stdout);
  }
  return 0;
}
