/* C16 harness: replacing the framebuffer (rfbNewFramebuffer) on the real server.
 *
 * ops (same script goes to Driver/C16.lean):
 *   screen W H B                 real screen, B = bytes per pixel (1|2|4)
 *   cursor w h xhot yhot         rfbSetCursor (X cursor, all mask bits set)
 *   client N                     socketpair + handshake (picture = ServerInit size/format)
 *   setenc N cr cs sz            SetEncodings Raw [CopyRect] [XCursor] sz: 0 -, 1 NewFBSize, 2 ExtDesktopSize, 3 both
 *   setpf N B                    SetPixelFormat to the canonical true-colour format of B bytes
 *   setscale N k                 rfbSetScale
 *   ptr N x y                    PointerEvent (no buttons)
 *   draw x1 y1 x2 y2 seed | mark x1 y1 x2 y2 | copyrgn dx dy x1 y1 x2 y2 [...]
 *   hook mode code               setDesktopSizeHook: mode 0 library default, 1 return code, 2 code==0 -> resize now
 *   sds N w h ns                 SetDesktopSize message with ns screens
 *   newfb W H B seed             new buffer, rfbNewFramebuffer, old buffer FREED at once
 *   req N incr x y w h | update N | state N
 * Lines starting with '!' are direct-oracle lines (model independent). */
#include "sess.h"
#include <rfb/rfbregion.h>

extern void (*rfbVerifPreEncodeHook)(rfbClientPtr, sraRegionPtr, sraRegionPtr, int, int);

#define MAXC 8
#define NOPIX 0xFFFFFFFFu
static rfbScreenInfoPtr scr;
static int W, H, B;                 /* what the application installed last */
typedef struct {
  int used, fmt, pw, ph, cap, scaled;
  uint32_t *pic;
  int told_w, told_h;               /* last size the client was told (ServerInit / size message / ResizeFrameBuffer) */
  int stale;                        /* resize-capable client: framebuffer replaced, size message not yet seen */
} hclient;
static hclient hc[MAXC];
static vh_conn conns[MAXC];
static uint32_t drawctr = 1;
static int hook_mode = 0, hook_code = 0, hook_calls = 0, hook_last_ns = -1;

/* pre-encode snapshot (of the buffer the encoders read: the client's scaled screen) */
static unsigned char *snap; static int snap_w, snap_h, snap_b, snap_valid;
static rfbClientPtr snap_cl;

static uint32_t pixhash(uint32_t seed, int x, int y) {
  uint64_t z = ((uint64_t)seed << 40) ^ ((uint64_t)(uint32_t)x << 20) ^ (uint32_t)y;
  z = (z ^ (z >> 30)) * 0xBF58476D1CE4E5B9ull; z = (z ^ (z >> 27)) * 0x94D049BB133111EBull;
  return (uint32_t)(z ^ (z >> 31));
}
static uint32_t pixmask(int b) { return b == 1 ? 0xFFu : b == 2 ? 0x7FFFu : 0xFFFFFFu; }
static uint32_t getpix(const unsigned char *p, int b) {
  if (b == 1) return p[0];
  if (b == 2) { uint16_t v; memcpy(&v, p, 2); return v; }
  { uint32_t v; memcpy(&v, p, 4); return v; }
}
static void putpix(unsigned char *p, int b, uint32_t v) {
  if (b == 1) p[0] = (unsigned char)v;
  else if (b == 2) { uint16_t s = (uint16_t)v; memcpy(p, &s, 2); }
  else memcpy(p, &v, 4);
}
/* canonical true-colour formats (what rfbInitServerFormat produces on a little-endian host) */
static void fmt_of(int b, int *rm, int *gm, int *bm, int *rs, int *gs, int *bs) {
  if (b == 1) { *rm = 7; *gm = 7; *bm = 3; *rs = 0; *gs = 3; *bs = 6; }
  else if (b == 2) { *rm = *gm = *bm = 31; *rs = 0; *gs = 5; *bs = 10; }
  else { *rm = *gm = *bm = 255; *rs = 0; *gs = 8; *bs = 16; }
}
/* reference pixel translation: the colour-scaling rule, independent of the library's tables */
static uint32_t xl(uint32_t v, int s, int c) {
  int rm, gm, bm, rs, gs, bs, RM, GM, BM, RS, GS, BS; uint32_t r, g, b;
  if (s == c) return v;
  fmt_of(s, &rm, &gm, &bm, &rs, &gs, &bs); fmt_of(c, &RM, &GM, &BM, &RS, &GS, &BS);
  r = (v >> rs) & rm; g = (v >> gs) & gm; b = (v >> bs) & bm;
  r = (r * RM + rm / 2) / rm; g = (g * GM + gm / 2) / gm; b = (b * BM + bm / 2) / bm;
  return (r << RS) | (g << GS) | (b << BS);
}

static void fill(char *fb, int w, int h, int b, uint32_t seed) {
  int x, y;
  for (y = 0; y < h; y++) for (x = 0; x < w; x++)
    putpix((unsigned char *)fb + ((size_t)y * w + x) * b, b, pixhash(seed, x, y) & pixmask(b));
}

static void print_region(sraRegionPtr r) {
  sraRectangleIterator *i = sraRgnGetIterator(r); sraRect rc; int first = 1;
  putchar('[');
  while (sraRgnIteratorNext(i, &rc)) {
    printf("%s%d,%d,%d,%d", first ? "" : ";", rc.x1, rc.y1, rc.x2, rc.y2); first = 0;
  }
  sraRgnReleaseIterator(i);
  putchar(']');
}

static unsigned char *mask_of(sraRegionPtr r, int w, int h, int *outside) {
  unsigned char *m = (unsigned char *)calloc((size_t)w * h + 1, 1);
  sraRectangleIterator *i = sraRgnGetIterator(r); sraRect rc; int x, y;
  while (sraRgnIteratorNext(i, &rc)) {
    if (rc.x1 < 0 || rc.y1 < 0 || rc.x2 > w || rc.y2 > h) (*outside)++;
    for (y = rc.y1; y < rc.y2; y++) for (x = rc.x1; x < rc.x2; x++)
      if (x >= 0 && y >= 0 && x < w && y < h) m[y * w + x] = 1;
  }
  sraRgnReleaseIterator(i);
  return m;
}

static void repic(int n, int w, int h) {
  size_t i, k = (size_t)w * h;
  free(hc[n].pic);
  hc[n].pic = (uint32_t *)malloc(k * 4 + 4);
  for (i = 0; i < k; i++) hc[n].pic[i] = NOPIX;
  hc[n].pw = w; hc[n].ph = h;
}

static int live(int id) { return id >= 0 && id < MAXC && hc[id].used && conns[id].cl && conns[id].cl->sock != RFB_INVALID_SOCKET; }

/* is (x,y) inside the clipped soft-cursor box at the client's cursor position? */
static int in_cursor_box(rfbClientPtr cl, int x, int y) {
  rfbCursorPtr c = scr->cursor; int x1, y1, x2, y2;
  if (!c || cl->enableCursorShapeUpdates) return 0;
  x1 = cl->cursorX - c->xhot; y1 = cl->cursorY - c->yhot; x2 = x1 + c->width; y2 = y1 + c->height;
  return x >= x1 && x < x2 && y >= y1 && y < y2;
}

/* convergence invariant on the implementation's own state and the decoded picture.
 * unscaled client whose picture has the screen's size: p not in M -> (p in C -> fb p = pic (p-d)) and
 * (p not in C -> fb p = pic p), fb taken through the reference translation; scaled client: when
 * nothing is pending the picture equals the (translated) scaled buffer. */
static void oracle_inv(int n) {
  rfbClientPtr cl = conns[n].cl; unsigned char *m, *c; int x, y, bad = 0, bx = -1, by = -1, outside = 0, idle;
  if (!live(n)) return;
  idle = sraRgnEmpty(cl->modifiedRegion) && sraRgnEmpty(cl->copyRegion);
  m = mask_of(cl->modifiedRegion, scr->width, scr->height, &outside);
  c = mask_of(cl->copyRegion, scr->width, scr->height, &outside);
  if (outside) printf("!inv %d FAIL modified/copy region leaves the %dx%d screen\n", n, scr->width, scr->height);
  if (cl->scaledScreen != scr) {
    rfbScreenInfoPtr ss = cl->scaledScreen; int sb = ss->bitsPerPixel / 8;
    if (sb != scr->serverFormat.bitsPerPixel / 8 || ss->width > scr->width || ss->height > scr->height || ss->width < 1 || ss->height < 1)
      printf("!ss %d FAIL scaled version %dx%d/%d bytes does not fit the %dx%d/%d screen\n", n, ss->width, ss->height, sb, scr->width, scr->height, scr->serverFormat.bitsPerPixel / 8);
    if (idle && hc[n].pw == ss->width && hc[n].ph == ss->height) {
      for (y = 0; y < ss->height; y++) for (x = 0; x < ss->width; x++) {
        uint32_t want = xl(getpix((unsigned char *)ss->frameBuffer + (size_t)y * ss->paddedWidthInBytes + (size_t)x * sb, sb), scr->serverFormat.bitsPerPixel / 8, hc[n].fmt);
        if (hc[n].pic[y * hc[n].pw + x] != want) { if (!bad) { bx = x; by = y; } bad++; }
      }
      if (bad) printf("!inv %d FAIL scaled pixels=%d first=%d,%d\n", n, bad, bx, by);
      else printf("!inv %d ok idle=1 scaled\n", n);
    } else printf("!inv %d skip scaled idle=%d pic=%dx%d ss=%dx%d\n", n, idle, hc[n].pw, hc[n].ph, ss->width, ss->height);
  } else if (hc[n].pw != scr->width || hc[n].ph != scr->height) {
    /* the client does not yet know the geometry: nothing may be claimed to be up to date */
    int miss = 0;
    for (y = 0; y < scr->height; y++) for (x = 0; x < scr->width; x++) if (!m[y * scr->width + x]) miss++;
    if (miss) printf("!inv %d FAIL picture is %dx%d, screen %dx%d, but %d pixels are not scheduled\n", n, hc[n].pw, hc[n].ph, scr->width, scr->height, miss);
    else printf("!inv %d ok untold\n", n);
  } else {
    int w = scr->width, h = scr->height, sb = scr->serverFormat.bitsPerPixel / 8;
    for (y = 0; y < h; y++) for (x = 0; x < w; x++) {
      uint32_t want;
      if (m[y * w + x] || in_cursor_box(cl, x, y)) continue;
      want = xl(getpix((unsigned char *)scr->frameBuffer + (size_t)y * scr->paddedWidthInBytes + (size_t)x * sb, sb), sb, hc[n].fmt);
      if (c[y * w + x]) {
        int sx = x - cl->copyDX, sy = y - cl->copyDY;
        if (sx < 0 || sy < 0 || sx >= w || sy >= h || want != hc[n].pic[sy * w + sx]) { if (!bad) { bx = x; by = y; } bad++; }
      } else if (want != hc[n].pic[y * w + x]) { if (!bad) { bx = x; by = y; } bad++; }
    }
    if (bad) printf("!inv %d FAIL pixels=%d first=%d,%d\n", n, bad, bx, by);
    else printf("!inv %d ok idle=%d\n", n, idle);
  }
  free(m); free(c);
}

/* directly after a replacement every scaled version in use must be the reduced NEW framebuffer
 * (format, size, contents: reference box filter over the blocks ScaleX/ScaleY assign) */
static void check_scaled(int n) {
  rfbScreenInfoPtr ss = conns[n].cl->scaledScreen; int sb = ss->bitsPerPixel / 8;
  if (ss == scr) return;
    if (sb != scr->serverFormat.bitsPerPixel / 8 || ss->width > scr->width || ss->height > scr->height || ss->width < 1 || ss->height < 1)
      printf("!ss %d FAIL scaled version %dx%d/%d bytes does not fit the %dx%d/%d screen\n", n, ss->width, ss->height, sb, scr->width, scr->height, scr->serverFormat.bitsPerPixel / 8);
    else {
      int rm, gm, bm, rs, gs, bs, ax = scr->width / ss->width, ay = scr->height / ss->height, X, Y, i, j, nb = 0;
      fmt_of(sb, &rm, &gm, &bm, &rs, &gs, &bs);
      for (Y = 0; Y < ss->height; Y++) for (X = 0; X < ss->width; X++) {
        unsigned long r = 0, g = 0, b = 0; uint32_t want, got;
        int sx = (int)((long long)X * scr->width / ss->width), sy = (int)((long long)Y * scr->height / ss->height);
        for (j = 0; j < ay; j++) for (i = 0; i < ax; i++) {
          uint32_t v = getpix((unsigned char *)scr->frameBuffer + (size_t)(sy + j) * scr->paddedWidthInBytes + (size_t)(sx + i) * sb, sb);
          r += (v >> rs) & rm; g += (v >> gs) & gm; b += (v >> bs) & bm;
        }
        r /= (unsigned long)(ax * ay); g /= (unsigned long)(ax * ay); b /= (unsigned long)(ax * ay);
        want = (uint32_t)(((r & rm) << rs) | ((g & gm) << gs) | ((b & bm) << bs));
        got = getpix((unsigned char *)ss->frameBuffer + (size_t)Y * ss->paddedWidthInBytes + (size_t)X * sb, sb);
        if (want != got) nb++;
      }
      if (nb) printf("!ss %d FAIL %d pixels of the %dx%d scaled version are not the reduced framebuffer\n", n, nb, ss->width, ss->height);
    }
}

static void pre_encode(rfbClientPtr cl, sraRegionPtr upd, sraRegionPtr cpy, int dx, int dy) {
  rfbScreenInfoPtr ss = cl->scaledScreen; int b = ss->bitsPerPixel / 8, y;
  (void)upd; (void)cpy; (void)dx; (void)dy;
  free(snap);
  snap = (unsigned char *)malloc((size_t)ss->width * ss->height * b + 1);
  for (y = 0; y < ss->height; y++)
    memcpy(snap + (size_t)y * ss->width * b, ss->frameBuffer + (size_t)y * ss->paddedWidthInBytes, (size_t)ss->width * b);
  snap_w = ss->width; snap_h = ss->height; snap_b = b; snap_valid = 1; snap_cl = cl;
}

#include <stdarg.h>
static vh_buf plainb, orcb;
static void P(const char *fmt, ...) { char t[512]; va_list ap; va_start(ap, fmt); vsnprintf(t, sizeof t, fmt, ap); va_end(ap); vh_buf_add(&plainb, t, strlen(t)); }
static void O(const char *fmt, ...) { char t[512]; va_list ap; va_start(ap, fmt); vsnprintf(t, sizeof t, fmt, ap); va_end(ap); vh_buf_add(&orcb, t, strlen(t)); vh_buf_add(&orcb, "\n", 1); }

static uint16_t be16(const unsigned char *p) { return (uint16_t)((p[0] << 8) | p[1]); }
static uint32_t be32(const unsigned char *p) { return ((uint32_t)p[0] << 24) | (p[1] << 16) | (p[2] << 8) | p[3]; }

static void told(int n, int w, int h) {
  hc[n].told_w = w; hc[n].told_h = h; hc[n].stale = 0;
  if (w != hc[n].pw || h != hc[n].ph) repic(n, w, h);
}

/* parse + apply every complete server message in c->out; prints one summary line */
static void apply_msgs(int n) {
  vh_conn *c = &conns[n]; int printed = 0; int sb = scr->serverFormat.bitsPerPixel / 8, cb = hc[n].fmt;
  while (c->out.n >= 1) {
    unsigned char *p = c->out.p; size_t off, k; unsigned nrects, cs = 0;
    vh_buf line = {0}; char tmp[160]; int ok = 1, sized = 0, pixels = 0;
    if (p[0] == 4) {                                   /* ResizeFrameBuffer (UltraVNC scaling) */
      if (c->out.n < 6) break;
      P("%srsz %d %d", printed ? " | " : "", be16(p + 2), be16(p + 4)); printed++;
      told(n, be16(p + 2), be16(p + 4));
      vh_buf_consume(&c->out, 6);
      continue;
    }
    if (p[0] != 0) { O("!wire %d unexpected message type %d", n, p[0]); c->out.n = 0; break; }
    if (c->out.n < 4) break;
    nrects = be16(p + 2); off = 4;
    {
      vh_buf copies = {0}, raws = {0};
      for (k = 0; k < nrects; k++) {
        int x, y, w, h; int32_t enc;
        if (c->out.n < off + 12) { ok = 0; break; }
        x = be16(p + off); y = be16(p + off + 2); w = be16(p + off + 4); h = be16(p + off + 6);
        enc = (int32_t)be32(p + off + 8); off += 12;
        if (enc == 0) {
          size_t len = (size_t)w * h * cb; int i, j, badpix = 0;
          if (c->out.n < off + len) { ok = 0; break; }
          pixels = 1;
          if (hc[n].stale) O("!order %d FAIL pixel rectangle %d,%d,%d,%d before the size message", n, x, y, w, h);
          if (w == 0 || h == 0 || x + w > hc[n].told_w || y + h > hc[n].told_h) O("!rect %d FAIL raw %d,%d,%d,%d outside the size the client was told (%dx%d)", n, x, y, w, h, hc[n].told_w, hc[n].told_h);
          if (x + w > conns[n].cl->scaledScreen->width || y + h > conns[n].cl->scaledScreen->height) O("!rect %d FAIL raw %d,%d,%d,%d outside the new size %dx%d", n, x, y, w, h, conns[n].cl->scaledScreen->width, conns[n].cl->scaledScreen->height);
          for (j = 0; j < h; j++) for (i = 0; i < w; i++) {
            uint32_t v = getpix(p + off + ((size_t)j * w + i) * cb, cb);
            if (x + i < hc[n].pw && y + j < hc[n].ph) hc[n].pic[(y + j) * hc[n].pw + x + i] = v;
            if (snap_valid && snap_cl == conns[n].cl && x + i < snap_w && y + j < snap_h) {
              if (v != xl(getpix(snap + ((size_t)(y + j) * snap_w + x + i) * snap_b, snap_b), sb, cb)) badpix++;
            } else badpix++;
          }
          if (badpix) O("!pix %d FAIL raw %d,%d,%d,%d: %d pixels are not the translated framebuffer contents (server %d -> client %d bytes)", n, x, y, w, h, badpix, sb, cb);
          off += len;
          sprintf(tmp, "%s%d,%d,%d,%d", raws.n ? ";" : "", x, y, x + w, y + h); vh_buf_add(&raws, tmp, strlen(tmp));
        } else if (enc == 1) {
          int sx, sy, j, pw = hc[n].pw, ph = hc[n].ph;
          if (c->out.n < off + 4) { ok = 0; break; }
          sx = be16(p + off); sy = be16(p + off + 2); off += 4;
          pixels = 1;
          if (hc[n].stale) O("!order %d FAIL copy rectangle before the size message", n);
          if (w == 0 || h == 0 || x + w > hc[n].told_w || y + h > hc[n].told_h || sx + w > hc[n].told_w || sy + h > hc[n].told_h) O("!rect %d FAIL copyrect %d,%d,%d,%d from %d,%d outside the size the client was told (%dx%d)", n, x, y, w, h, sx, sy, hc[n].told_w, hc[n].told_h);
          if (x + w > pw || y + h > ph || sx + w > pw || sy + h > ph) { /* cannot be applied */ }
          else if (sy >= y) for (j = 0; j < h; j++) memmove(&hc[n].pic[(y + j) * pw + x], &hc[n].pic[(sy + j) * pw + sx], (size_t)w * 4);
          else for (j = h - 1; j >= 0; j--) memmove(&hc[n].pic[(y + j) * pw + x], &hc[n].pic[(sy + j) * pw + sx], (size_t)w * 4);
          sprintf(tmp, "%s%d,%d,%d,%d,%d,%d", copies.n ? ";" : "", x, y, w, h, sx, sy); vh_buf_add(&copies, tmp, strlen(tmp));
        } else if (enc == (int32_t)0xFFFFFF10) {           /* XCursor */
          size_t len = (w * h) ? 6 + 2 * (size_t)((w + 7) / 8) * h : 0;
          if (c->out.n < off + len) { ok = 0; break; }
          off += len; cs = 1;
        } else if (enc == (int32_t)0xFFFFFF21) {           /* NewFBSize */
          if (pixels) O("!order %d FAIL size message after pixel data in one update", n);
          sprintf(tmp, "size %d %d", w, h); vh_buf_add(&line, tmp, strlen(tmp));
          told(n, w, h); sized = 1;
        } else if (enc == (int32_t)0xFFFFFECC) {           /* ExtendedDesktopSize: x = reason, y = status */
          unsigned ns, s;
          if (c->out.n < off + 4) { ok = 0; break; }
          ns = p[off]; off += 4;
          if (c->out.n < off + 16 * (size_t)ns) { ok = 0; break; }
          if (pixels) O("!order %d FAIL size message after pixel data in one update", n);
          sprintf(tmp, "ext r=%d s=%d %d %d [", x, y, w, h); vh_buf_add(&line, tmp, strlen(tmp));
          for (s = 0; s < ns; s++) {
            const unsigned char *q = p + off + 16 * s;
            sprintf(tmp, "%s%u,%d,%d,%d,%d,%u", s ? ";" : "", be32(q), be16(q + 4), be16(q + 6), be16(q + 8), be16(q + 10), be32(q + 12));
            vh_buf_add(&line, tmp, strlen(tmp));
          }
          vh_buf_add(&line, "]", 1);
          off += 16 * (size_t)ns;
          told(n, w, h); sized = 1;
        } else { O("!wire %d unexpected encoding %d", n, enc); c->out.n = 0; ok = 0; break; }
      }
      if (!ok) { free(copies.p); free(raws.p); free(line.p); break; }   /* incomplete message: wait for more */
      vh_buf_add(&copies, "", 1); vh_buf_add(&raws, "", 1); vh_buf_add(&line, "", 1);
      if (sized) {
        P("%s%s", printed ? " | " : "", (char *)line.p);
        if (nrects != 1) O("!order %d FAIL size message travels with %u rectangles", n, nrects);
      } else P("%sfbu cs=%u copies=[%s] raws=[%s]", printed ? " | " : "", cs, (char *)copies.p, (char *)raws.p);
      printed++;
      free(copies.p); free(raws.p); free(line.p);
    }
    vh_buf_consume(&c->out, off);
  }
  if (c->out.n) O("!wire %d %zu undecodable bytes left", n, c->out.n);
  if (!printed) puts("none"); else { vh_buf_add(&plainb, "", 1); puts((char *)plainb.p); }
  if (orcb.n) fwrite(orcb.p, 1, orcb.n, stdout);
  plainb.n = 0; orcb.n = 0;
  snap_valid = 0;
}

static void do_newfb(int w, int h, int b, uint32_t seed) {
  char *old = scr->frameBuffer, *nb = (char *)malloc((size_t)w * h * b + 1);
  int i, fmtchg = (b != B);
  fill(nb, w, h, b, seed);
  rfbNewFramebuffer(scr, nb, w, h, b == 2 ? 5 : 8, b == 1 ? 1 : 3, b);
  free(old);                                            /* any later touch of the old buffer: ASan */
  W = w; H = h; B = b;
  /* "Rich cursor data should be converted to new pixel format by the caller" */
  if (fmtchg && scr->cursor && scr->cursor->richSource) rfbMakeRichCursorFromXCursor(scr, scr->cursor);
  for (i = 0; i < MAXC; i++) {
    if (!live(i)) continue;
    check_scaled(i);
    if (conns[i].cl->useNewFBSize) hc[i].stale = 1;
    else { rfbScreenInfoPtr ss = conns[i].cl->scaledScreen;   /* cannot be told: the oracle uses the new size */
      hc[i].told_w = ss->width; hc[i].told_h = ss->height; repic(i, ss->width, ss->height); }
  }
}

/* what a conforming client does after changing its pixel format or scale: ask for everything again */
static void full_request(int id) {
  unsigned char m[10] = { 3, 0, 0, 0, 0, 0, 0xFF, 0xFF, 0xFF, 0xFF };
  if (!live(id)) return;
  vh_send(&conns[id], m, 10);
  rfbProcessClientMessage(conns[id].cl);
}

static int my_sds_hook(int width, int height, int numScreens, rfbExtDesktopScreen *s, rfbClientPtr cl) {
  int i; volatile uint32_t sum = 0;
  (void)cl;
  hook_calls++; hook_last_ns = numScreens;
  for (i = 0; i < numScreens; i++) sum += s[i].id + s[i].x + s[i].y + s[i].width + s[i].height + s[i].flags;  /* touch all: ASan */
  if (hook_mode == 2 && hook_code == 0 && width > 0 && height > 0 && width <= 64 && height <= 64)
    do_newfb(width, height, B, 7777u + (uint32_t)hook_calls);
  return hook_code;
}
static rfbSetDesktopSizeHookPtr default_hook;

int main(void) {
  char *line, *tok[1024];
  rfbVerifPreEncodeHook = pre_encode;
  while ((line = vh_readline())) {
    int n = vh_split(line, tok, 1024);
    int w0 = scr ? scr->width : 0, h0 = scr ? scr->height : 0, appresize = 0;
    if (n == 0 || tok[0][0] == '#') continue;
    if (!strcmp(tok[0], "screen") && n == 4 && !scr) {
      W = atoi(tok[1]); H = atoi(tok[2]); B = atoi(tok[3]);
      scr = vh_screen(W, H, B);
      default_hook = scr->setDesktopSizeHook;
      fill(scr->frameBuffer, W, H, B, 0);
      puts("ok"); appresize = 1;
    } else if (!scr) { puts("bad-op");
    } else if (!strcmp(tok[0], "cursor") && n == 5) {
      int w = atoi(tok[1]), h = atoi(tok[2]); rfbCursorPtr c;
      char *bits = (char *)malloc((size_t)w * h + 1); memset(bits, 'x', (size_t)w * h); bits[w * h] = 0;
      c = rfbMakeXCursor(w, h, bits, bits); c->xhot = atoi(tok[3]); c->yhot = atoi(tok[4]);
      c->cleanup = TRUE;
      rfbSetCursor(scr, c); free(bits);
      puts("ok");
    } else if (!strcmp(tok[0], "client") && n == 2) {
      int id = atoi(tok[1]);
      if (id < 0 || id >= MAXC || hc[id].used) { puts("bad-op"); continue; }
      hc[id].used = 1;
      vh_connect_pre(scr, &conns[id], "RFB 003.008\n", 12);
      { unsigned char one = 1; rfbClientPtr cl = conns[id].cl;     /* handshake of THIS client only (no rfbProcessEvents: other clients must not be served here) */
        if (cl && cl->state == RFB_PROTOCOL_VERSION) rfbProcessClientMessage(cl);
        vh_send(&conns[id], &one, 1); rfbProcessClientMessage(cl);   /* security type None */
        vh_send(&conns[id], &one, 1); rfbProcessClientMessage(cl);   /* ClientInit, shared */
        vh_drain(&conns[id]); vh_buf_reset(&conns[id].out);
        if (!cl || cl->state != RFB_NORMAL) { puts("handshake-failed"); continue; } }
      hc[id].fmt = B; hc[id].pic = NULL; repic(id, W, H); hc[id].told_w = W; hc[id].told_h = H;
      puts("ok");
    } else if (!strcmp(tok[0], "setenc") && n == 5) {
      int id = atoi(tok[1]), cr = atoi(tok[2]), cs = atoi(tok[3]), sz = atoi(tok[4]); unsigned char m[4 + 24]; int k = 0, ne;
      if (!live(id)) { puts("bad-op"); continue; }
      ne = 1 + !!cr + !!cs + !!(sz & 1) + !!(sz & 2);
      m[0] = 2; m[1] = 0; m[2] = 0; m[3] = (unsigned char)ne;
      memset(m + 4, 0, 4); k = 8;                                   /* Raw */
      if (cr) { m[k] = 0; m[k+1] = 0; m[k+2] = 0; m[k+3] = 1; k += 4; }
      if (cs) { m[k] = 0xFF; m[k+1] = 0xFF; m[k+2] = 0xFF; m[k+3] = 0x10; k += 4; }
      if (sz & 1) { m[k] = 0xFF; m[k+1] = 0xFF; m[k+2] = 0xFF; m[k+3] = 0x21; k += 4; }
      if (sz & 2) { m[k] = 0xFF; m[k+1] = 0xFF; m[k+2] = 0xFE; m[k+3] = 0xCC; k += 4; }
      vh_send(&conns[id], m, (size_t)k);
      rfbProcessClientMessage(conns[id].cl);
      hc[id].cap = sz;
      if (!conns[id].cl->useNewFBSize) {   /* without resize support a client cannot be told: the oracle uses the actual size (as in do_newfb) */
        rfbScreenInfoPtr ss = conns[id].cl->scaledScreen;
        hc[id].stale = 0; hc[id].told_w = ss->width; hc[id].told_h = ss->height;
        if (hc[id].pw != ss->width || hc[id].ph != ss->height) repic(id, ss->width, ss->height);
      }
      puts("ok");
    } else if (!strcmp(tok[0], "setpf") && n == 3) {
      int id = atoi(tok[1]), b = atoi(tok[2]); unsigned char m[20]; int rm, gm, bm, rs, gs, bs;
      if (!live(id) || (b != 1 && b != 2 && b != 4)) { puts("bad-op"); continue; }
      fmt_of(b, &rm, &gm, &bm, &rs, &gs, &bs);
      memset(m, 0, sizeof m);
      m[0] = 0; m[4] = (unsigned char)(8 * b); m[5] = (unsigned char)(8 * b); m[6] = 0; m[7] = 1;
      m[8] = rm >> 8; m[9] = rm & 255; m[10] = gm >> 8; m[11] = gm & 255; m[12] = bm >> 8; m[13] = bm & 255;
      m[14] = (unsigned char)rs; m[15] = (unsigned char)gs; m[16] = (unsigned char)bs;
      vh_send(&conns[id], m, 20);
      rfbProcessClientMessage(conns[id].cl);
      hc[id].fmt = b;
      { size_t i, k = (size_t)hc[id].pw * hc[id].ph; for (i = 0; i < k; i++) hc[id].pic[i] = NOPIX; }   /* old contents are in the old format */
      full_request(id);
      puts("ok");
    } else if (!strcmp(tok[0], "setscale") && n == 3) {
      int id = atoi(tok[1]); unsigned char m[4];
      if (!live(id)) { puts("bad-op"); continue; }
      m[0] = 8; m[1] = (unsigned char)atoi(tok[2]); m[2] = 0; m[3] = 0;
      vh_send(&conns[id], m, 4);
      rfbProcessClientMessage(conns[id].cl);
      if (!live(id)) { puts("closed"); continue; }
      vh_drain(&conns[id]);
      hc[id].scaled = conns[id].cl->scaledScreen != scr;
      apply_msgs(id);
      full_request(id);
    } else if (!strcmp(tok[0], "ptr") && n == 4) {
      int id = atoi(tok[1]), x = atoi(tok[2]), y = atoi(tok[3]); unsigned char m[6];
      if (!live(id)) { puts("bad-op"); continue; }
      m[0] = 5; m[1] = 0; m[2] = x >> 8; m[3] = x & 255; m[4] = y >> 8; m[5] = y & 255;
      vh_send(&conns[id], m, 6);
      rfbProcessClientMessage(conns[id].cl);
      puts("ok");
    } else if ((!strcmp(tok[0], "draw") && n == 6) || (!strcmp(tok[0], "mark") && n == 5)) {
      int x1 = atoi(tok[1]), y1 = atoi(tok[2]), x2 = atoi(tok[3]), y2 = atoi(tok[4]);
      if (tok[0][0] == 'd') {
        int xa = x1 < x2 ? x1 : x2, xb = x1 < x2 ? x2 : x1, ya = y1 < y2 ? y1 : y2, yb = y1 < y2 ? y2 : y1, x, y;
        uint32_t seed = (uint32_t)atoi(tok[5]) * 65536u + drawctr++;
        for (y = ya < 0 ? 0 : ya; y < yb && y < H; y++) for (x = xa < 0 ? 0 : xa; x < xb && x < W; x++)
          putpix((unsigned char *)scr->frameBuffer + ((size_t)y * W + x) * B, B, pixhash(seed, x, y) & pixmask(B));
      }
      rfbMarkRectAsModified(scr, x1, y1, x2, y2);
      puts("ok");
    } else if (!strcmp(tok[0], "copyrgn") && n >= 7 && (n - 3) % 4 == 0) {
      int dx = atoi(tok[1]), dy = atoi(tok[2]), k; sraRegionPtr rg = NULL;
      for (k = 3; k + 3 < n; k += 4) {
        sraRegionPtr r = sraRgnCreateRect(atoi(tok[k]), atoi(tok[k+1]), atoi(tok[k+2]), atoi(tok[k+3]));
        if (!rg) rg = r; else { sraRgnOr(rg, r); sraRgnDestroy(r); }
      }
      rfbDoCopyRegion(scr, rg, dx, dy);
      sraRgnDestroy(rg);
      puts("ok");
    } else if (!strcmp(tok[0], "hook") && n == 3) {
      hook_mode = atoi(tok[1]); hook_code = atoi(tok[2]);
      scr->setDesktopSizeHook = hook_mode ? my_sds_hook : default_hook;
      puts("ok");
    } else if (!strcmp(tok[0], "sds") && n == 5) {
      int id = atoi(tok[1]), w = atoi(tok[2]), h = atoi(tok[3]), ns = atoi(tok[4]), k, calls0 = hook_calls;
      unsigned char *m;
      if (!live(id) || ns < 0 || ns > 255) { puts("bad-op"); continue; }
      m = (unsigned char *)calloc(8 + 16 * (size_t)ns + 1, 1);
      m[0] = 251; m[2] = w >> 8; m[3] = w & 255; m[4] = h >> 8; m[5] = h & 255; m[6] = (unsigned char)ns;
      for (k = 0; k < ns; k++) { unsigned char *q = m + 8 + 16 * k; q[3] = (unsigned char)(k + 1); q[8] = w >> 8; q[9] = w & 255; q[10] = h >> 8; q[11] = h & 255; }
      vh_send(&conns[id], m, 8 + 16 * (size_t)ns);
      free(m);
      rfbProcessClientMessage(conns[id].cl);
      appresize = (hook_mode == 2 && hook_code == 0 && hook_calls > calls0);
      if (hook_mode && ns > 0 && (hook_calls != calls0 + 1 || hook_last_ns != ns)) printf("!sds %d FAIL hook calls %d (screens seen %d, sent %d)\n", id, hook_calls - calls0, hook_last_ns, ns);
      if (ns == 0 && hook_calls != calls0) printf("!sds %d FAIL hook called for a request without screens\n", id);
      puts(live(id) ? "ok" : "closed");
    } else if (!strcmp(tok[0], "newfb") && n == 5) {
      int w = atoi(tok[1]), h = atoi(tok[2]), b = atoi(tok[3]);
      if (w < 1 || h < 1 || (b != 1 && b != 2 && b != 4)) { puts("bad-op"); continue; }
      do_newfb(w, h, b, (uint32_t)atoi(tok[4]) + 100000u);
      puts("ok"); appresize = 1;
    } else if (!strcmp(tok[0], "req") && n == 7) {
      int id = atoi(tok[1]); unsigned char m[10]; int x = atoi(tok[3]), y = atoi(tok[4]), w = atoi(tok[5]), h = atoi(tok[6]);
      if (!live(id)) { puts("bad-op"); continue; }
      m[0] = 3; m[1] = (unsigned char)atoi(tok[2]);
      m[2] = x >> 8; m[3] = x & 255; m[4] = y >> 8; m[5] = y & 255; m[6] = w >> 8; m[7] = w & 255; m[8] = h >> 8; m[9] = h & 255;
      vh_send(&conns[id], m, 10);
      rfbProcessClientMessage(conns[id].cl);
      puts("ok");
    } else if (!strcmp(tok[0], "update") && n == 2) {
      int id = atoi(tok[1]);
      if (!live(id)) { puts("bad-op"); continue; }
      snap_valid = 0;
      rfbUpdateClient(conns[id].cl);
      vh_drain(&conns[id]);
      if (getenv("VH_HEX")) { printf("!hex "); vh_puthex(stdout, conns[id].out.p, conns[id].out.n > 200 ? 200 : conns[id].out.n); putchar('\n'); }
      apply_msgs(id);
      oracle_inv(id);
    } else if (!strcmp(tok[0], "state") && n == 2) {
      int id = atoi(tok[1]); rfbClientPtr cl;
      if (!live(id)) { puts("bad-op"); continue; }
      cl = conns[id].cl;
      printf("M="); print_region(cl->modifiedRegion); printf(" C="); print_region(cl->copyRegion);
      printf(" R="); print_region(cl->requestedRegion);
      printf(" d=%d,%d nf=%d ex=%d p=%d rq=%d er=%d cur=%d,%d xl=%s fmt=%d scr=%d,%d,%d,%d,%d ss=%d,%d\n", cl->copyDX, cl->copyDY,
             !!cl->useNewFBSize, !!cl->useExtDesktopSize, !!cl->newFBSizePending, cl->requestedDesktopSizeChange,
             cl->lastDesktopSizeChangeError, cl->cursorX, cl->cursorY, cl->translateFn == rfbTranslateNone ? "none" : "tab",
             cl->format.bitsPerPixel / 8, scr->width, scr->height, scr->serverFormat.bitsPerPixel / 8, scr->cursorX, scr->cursorY,
             cl->scaledScreen->width, cl->scaledScreen->height);
      if (scr->frameBuffer == NULL || scr->paddedWidthInBytes != scr->width * (scr->serverFormat.bitsPerPixel / 8)) printf("!scr FAIL inconsistent screen record\n");
      oracle_inv(id);
    } else puts("bad-op");
    if (scr && !appresize && (scr->width != w0 || scr->height != h0))
      printf("!size FAIL %s changed the screen size %dx%d -> %dx%d without the application\n", tok[0], w0, h0, scr->width, scr->height);
    fflush(stdout);
  }
  return 0;
}
