/* C11 harness: the real sra* region functions on a register file of regions, plus a direct
 * oracle that does not know the Lean model: every register has a shadow pixel set kept as a list
 * of disjoint rectangles; every operation is re-done as bitmap set algebra on a coordinate-
 * compressed grid and the rectangles enumerated from the library's region are rasterised on the
 * same grid and compared (non-empty, pairwise disjoint, union = expected set, order, count).
 *
 * ops (one observation line each; see lean/Driver/C11.lean for the model side):
 *   verbose 0|1 | mk rD x1 y1 x2 y2 | mkraw rD x1 y1 x2 y2 | empty rD | dup rD rS | or rD rS |
 *   and rD rS | sub rD rS | offset rD dx dy | bbox rD rS | pop rD flags | count rS | isempty rS |
 *   iter rS rx ry | clip x y w h cx cy cw ch | clip2 x y x2 y2 cx cy cx2 cy2
 * Region-modifying ops print "<result> = <dump of rD>"; dump = "n x1,y1,x2,y2 ..." (forward
 * iteration) when n <= 24 or verbose, else "n #<hash>".
 * Oracle failures: message "ORACLE: ..." on stderr and exit code 3. */
#include <rfb/rfb.h>
#include <rfb/rfbregion.h>
#include <limits.h>
#include <stdarg.h>
#include "vh.h"

typedef long long ll;
typedef struct { ll x1, y1, x2, y2; } orect;
typedef struct { orect *r; int n, cap; } oset;

#define NREG 64
static sraRegionPtr regs[NREG];
static oset shadow[NREG];
static int raw[NREG];
static int verbose = 0;
static long opno = 0;
static const char *curline = "";

static void os_push(oset *s, orect r) {
  if (s->n == s->cap) { s->cap = s->cap ? s->cap * 2 : 8; s->r = (orect *)realloc(s->r, sizeof(orect) * s->cap); }
  s->r[s->n++] = r;
}
static void os_clear(oset *s) { free(s->r); s->r = NULL; s->n = s->cap = 0; }
static void os_copy(oset *d, const oset *s) {
  int i; oset t = {0};
  for (i = 0; i < s->n; i++) os_push(&t, s->r[i]);
  os_clear(d); *d = t;
}
static int proper(const orect *r) { return r->x1 < r->x2 && r->y1 < r->y2; }

static void oracle_fail(const char *fmt, ...) {
  va_list ap;
  fflush(stdout);
  fprintf(stderr, "ORACLE: op #%ld `%s`: ", opno, curline);
  va_start(ap, fmt); vfprintf(stderr, fmt, ap); va_end(ap);
  fputc('\n', stderr);
  _exit(3);
}

/* ---- coordinate-compressed bitmaps ---- */
typedef struct { ll *xs, *ys; int nx, ny, W, rows; } grid;

static int cmpll(const void *a, const void *b) { ll x = *(const ll *)a, y = *(const ll *)b; return x < y ? -1 : x > y; }
static int uniq(ll *a, int n) { int i, m = 0; for (i = 0; i < n; i++) if (!m || a[m-1] != a[i]) a[m++] = a[i]; return m; }

static void grid_build(grid *g, const oset **sets, int nsets) {
  int i, j, tot = 0, k = 0;
  for (i = 0; i < nsets; i++) tot += sets[i]->n;
  g->xs = (ll *)malloc(sizeof(ll) * (2 * tot + 1)); g->ys = (ll *)malloc(sizeof(ll) * (2 * tot + 1));
  for (i = 0; i < nsets; i++) for (j = 0; j < sets[i]->n; j++) {
    const orect *r = &sets[i]->r[j];
    if (!proper(r)) continue;
    g->xs[k] = r->x1; g->ys[k] = r->y1; k++; g->xs[k] = r->x2; g->ys[k] = r->y2; k++;
  }
  qsort(g->xs, k, sizeof(ll), cmpll); qsort(g->ys, k, sizeof(ll), cmpll);
  g->nx = uniq(g->xs, k); g->ny = uniq(g->ys, k);
  g->rows = g->ny > 1 ? g->ny - 1 : 0;
  g->W = g->nx > 1 ? (g->nx - 1 + 63) / 64 : 0;
}
static void grid_free(grid *g) { free(g->xs); free(g->ys); }
static int gidx(const ll *a, int n, ll v) {
  int lo = 0, hi = n - 1;
  while (lo <= hi) { int m = (lo + hi) / 2; if (a[m] == v) return m; if (a[m] < v) lo = m + 1; else hi = m - 1; }
  fprintf(stderr, "harness bug: coordinate not in grid\n"); abort();
}
static uint64_t *bm_new(const grid *g) { return (uint64_t *)calloc((size_t)g->rows * g->W + 1, sizeof(uint64_t)); }

/* set cells; returns 1 if some cell was already set (overlap) */
static int bm_rect(const grid *g, uint64_t *bm, const orect *r) {
  int a, b, y0, y1, y, c, ov = 0;
  if (!proper(r)) return 0;
  a = gidx(g->xs, g->nx, r->x1); b = gidx(g->xs, g->nx, r->x2);
  y0 = gidx(g->ys, g->ny, r->y1); y1 = gidx(g->ys, g->ny, r->y2);
  for (y = y0; y < y1; y++) {
    uint64_t *row = bm + (size_t)y * g->W;
    for (c = a; c < b; ) {
      int w = c >> 6, lo = c & 63, hi = (b - (w << 6)) < 64 ? (b - (w << 6)) : 64;
      uint64_t m = (hi == 64 ? ~0ull : ((1ull << hi) - 1)) & ~((1ull << lo) - 1);
      if (row[w] & m) ov = 1;
      row[w] |= m;
      c = (w + 1) << 6;
    }
  }
  return ov;
}
static int bm_set(const grid *g, uint64_t *bm, const oset *s) {
  int i, ov = 0;
  for (i = 0; i < s->n; i++) ov |= bm_rect(g, bm, &s->r[i]);
  return ov;
}
static int bm_get(const grid *g, const uint64_t *bm, int x, int y) { return (bm[(size_t)y * g->W + (x >> 6)] >> (x & 63)) & 1; }
static int bm_empty(const grid *g, const uint64_t *bm) {
  size_t i, n = (size_t)g->rows * g->W;
  for (i = 0; i < n; i++) if (bm[i]) return 0;
  return 1;
}
/* canonical banded decomposition of a bitmap */
static void bm_canon(const grid *g, const uint64_t *bm, oset *out) {
  int y = 0, x;
  os_clear(out);
  while (y < g->rows) {
    int y2 = y + 1;
    while (y2 < g->rows && !memcmp(bm + (size_t)y * g->W, bm + (size_t)y2 * g->W, sizeof(uint64_t) * g->W)) y2++;
    for (x = 0; x < g->nx - 1; ) {
      if (bm_get(g, bm, x, y)) {
        int x2 = x; orect r;
        while (x2 < g->nx - 1 && bm_get(g, bm, x2, y)) x2++;
        r.x1 = g->xs[x]; r.x2 = g->xs[x2]; r.y1 = g->ys[y]; r.y2 = g->ys[y2];
        os_push(out, r); x = x2;
      } else x++;
    }
    y = y2;
  }
}
static void bm_diffcell(const grid *g, const uint64_t *exp, const uint64_t *got, const char *what) {
  int x, y;
  for (y = 0; y < g->rows; y++) for (x = 0; x < g->nx - 1; x++)
    if (bm_get(g, exp, x, y) != bm_get(g, got, x, y))
      oracle_fail("%s: pixel (%lld,%lld) is %s the expected set but %s the region's rectangles", what,
                  g->xs[x], g->ys[y], bm_get(g, exp, x, y) ? "in" : "not in", bm_get(g, got, x, y) ? "in" : "not in");
}

/* ---- reading the library's region ---- */
static void lib_list(sraRegionPtr r, int rx, int ry, oset *out) {
  sraRectangleIterator *it = (rx || ry) ? sraRgnGetReverseIterator(r, rx, ry) : sraRgnGetIterator(r);
  sraRect rc; orect o;
  os_clear(out);
  while (sraRgnIteratorNext(it, &rc)) { o.x1 = rc.x1; o.y1 = rc.y1; o.x2 = rc.x2; o.y2 = rc.y2; os_push(out, o); }
  sraRgnReleaseIterator(it);
}
static void print_list(const oset *l) {
  int i;
  printf("%d", l->n);
  if (l->n <= 24 || verbose) {
    for (i = 0; i < l->n; i++) printf(" %lld,%lld,%lld,%lld", l->r[i].x1, l->r[i].y1, l->r[i].x2, l->r[i].y2);
  } else {
    uint64_t h = 1469598103934665603ull;
    for (i = 0; i < l->n; i++) {
      h = (h ^ (uint64_t)(l->r[i].x1 + 4294967296ll)) * 1099511628211ull;
      h = (h ^ (uint64_t)(l->r[i].y1 + 4294967296ll)) * 1099511628211ull;
      h = (h ^ (uint64_t)(l->r[i].x2 + 4294967296ll)) * 1099511628211ull;
      h = (h ^ (uint64_t)(l->r[i].y2 + 4294967296ll)) * 1099511628211ull;
    }
    printf(" #%llu", (unsigned long long)h);
  }
}

/* iterator laws on a list obtained in direction (rx,ry) for a region whose pixel set should be `exp` */
static void check_list(const oset *l, const oset *exp, int rx, int ry, int israw, sraRegionPtr reg, const char *what) {
  const oset *sets[2]; grid g; uint64_t *be, *bl; int i;
  unsigned long cnt = sraRgnCountRects(reg);
  if (cnt != (unsigned long)l->n) oracle_fail("%s: sraRgnCountRects = %lu but %d rectangles iterated", what, cnt, l->n);
  if (!israw) for (i = 0; i < l->n; i++) if (!proper(&l->r[i]))
    oracle_fail("%s: iterated rectangle %d (%lld,%lld,%lld,%lld) is empty", what, i, l->r[i].x1, l->r[i].y1, l->r[i].x2, l->r[i].y2);
  for (i = 0; i + 1 < l->n; i++) {
    const orect *a = &l->r[i], *b = &l->r[i + 1]; int ok;
    if (a->y1 == b->y1 && a->y2 == b->y2) ok = rx ? (b->x2 <= a->x1) : (b->x1 >= a->x2);
    else ok = ry ? (b->y2 <= a->y1) : (b->y1 >= a->y2);
    if (!ok && !israw) oracle_fail("%s: order not monotone (rx=%d ry=%d) between rectangle %d (%lld,%lld,%lld,%lld) and %d (%lld,%lld,%lld,%lld)",
                        what, rx, ry, i, a->x1, a->y1, a->x2, a->y2, i + 1, b->x1, b->y1, b->x2, b->y2);
  }
  sets[0] = l; sets[1] = exp;
  grid_build(&g, sets, 2);
  be = bm_new(&g); bl = bm_new(&g);
  bm_set(&g, be, exp);
  if (bm_set(&g, bl, l)) oracle_fail("%s: iterated rectangles overlap", what);
  if (memcmp(be, bl, sizeof(uint64_t) * (size_t)g.rows * g.W)) bm_diffcell(&g, be, bl, what);
  free(be); free(bl); grid_free(&g);
}

/* after a region-modifying op: read rD forward, check against shadow[d], print the dump */
static void finish_dest(int d, const char *what) {
  oset l = {0};
  lib_list(regs[d], 0, 0, &l);
  check_list(&l, &shadow[d], 0, 0, raw[d], regs[d], what);
  printf(" = "); print_list(&l); putchar('\n');
  os_clear(&l);
}

/* shadow[d] := shadow[d] <op> shadow[s];  op: 0 or, 1 and, 2 sub */
static void shadow_binop(int d, const oset *B, int op) {
  const oset *sets[2]; grid g; uint64_t *a, *b; size_t i, n;
  sets[0] = &shadow[d]; sets[1] = B;
  grid_build(&g, sets, 2);
  a = bm_new(&g); b = bm_new(&g);
  bm_set(&g, a, &shadow[d]); bm_set(&g, b, B);
  n = (size_t)g.rows * g.W;
  for (i = 0; i < n; i++) a[i] = op == 0 ? (a[i] | b[i]) : op == 1 ? (a[i] & b[i]) : (a[i] & ~b[i]);
  bm_canon(&g, a, &shadow[d]);
  free(a); free(b); grid_free(&g);
}

static int regno(const char *t) {
  char *e; long v;
  if (t[0] != 'r' || !t[1]) return -1;
  v = strtol(t + 1, &e, 10);
  if (*e || v < 0 || v >= NREG) return -1;
  return (int)v;
}
static int geti(const char *t, ll *out) {
  char *e; ll v;
  if (!*t) return 0;
  errno = 0; v = strtoll(t, &e, 10);
  if (*e || errno || v < INT_MIN || v > INT_MAX) return 0;
  *out = v; return 1;
}

int main(void) {
  char *line, *tok[16]; int i;
  static char copy[4096];
  unsigned watchdog = getenv("C11_WATCHDOG") ? (unsigned)atoi(getenv("C11_WATCHDOG")) : 60;
  for (i = 0; i < NREG; i++) regs[i] = sraRgnCreate();
  while ((line = vh_readline())) {
    int n, d, s; ll v[8];
    alarm(watchdog);  /* watchdog: no single library call takes that long; SIGALRM = hang */
    strncpy(copy, line, sizeof(copy) - 1); curline = copy;
    n = vh_split(line, tok, 16);
    if (n == 0 || tok[0][0] == '#') continue;
    opno++;
    if (!strcmp(tok[0], "verbose") && n == 2 && (tok[1][0] == '0' || tok[1][0] == '1') && !tok[1][1]) {
      verbose = tok[1][0] == '1'; puts("ok");
    } else if ((!strcmp(tok[0], "mk") || !strcmp(tok[0], "mkraw")) && n == 6 && (d = regno(tok[1])) >= 0 &&
               geti(tok[2], &v[0]) && geti(tok[3], &v[1]) && geti(tok[4], &v[2]) && geti(tok[5], &v[3])) {
      orect r; int israw = !strcmp(tok[0], "mkraw");
      r.x1 = v[0]; r.y1 = v[1]; r.x2 = v[2]; r.y2 = v[3];
      /* sraRgnCreateRect is total: an empty / inverted rectangle gives the empty region.  The
       * result is treated like any other region (all iterator laws checked). */
      israw = 0;
      sraRgnDestroy(regs[d]);
      regs[d] = sraRgnCreateRect((int)v[0], (int)v[1], (int)v[2], (int)v[3]);
      os_clear(&shadow[d]); if (proper(&r)) os_push(&shadow[d], r);
      raw[d] = israw;
      printf("ok"); finish_dest(d, "createRect");
    } else if (!strcmp(tok[0], "empty") && n == 2 && (d = regno(tok[1])) >= 0) {
      sraRgnMakeEmpty(regs[d]); os_clear(&shadow[d]); raw[d] = 0;
      printf("ok"); finish_dest(d, "makeEmpty");
    } else if (!strcmp(tok[0], "dup") && n == 3 && (d = regno(tok[1])) >= 0 && (s = regno(tok[2])) >= 0) {
      if (d != s) {
        sraRgnDestroy(regs[d]); regs[d] = sraRgnCreateRgn(regs[s]);
        os_copy(&shadow[d], &shadow[s]); raw[d] = raw[s];
      }
      printf("ok"); finish_dest(d, "createRgn (copy)");
    } else if ((!strcmp(tok[0], "or") || !strcmp(tok[0], "and") || !strcmp(tok[0], "sub")) && n == 3 &&
               (d = regno(tok[1])) >= 0 && (s = regno(tok[2])) >= 0) {
      int op = tok[0][0] == 'o' ? 0 : tok[0][0] == 'a' ? 1 : 2; rfbBool res = 1; int nonempty;
      /* the library is never called with aliased operands by the server: same register = equal copy */
      sraRegionPtr src; oset B = {0};
      if (raw[d] || raw[s]) { puts("bad-op"); continue; }
      src = (d == s) ? sraRgnCreateRgn(regs[s]) : regs[s];
      os_copy(&B, &shadow[s]);
      if (op == 0) sraRgnOr(regs[d], src); else if (op == 1) res = sraRgnAnd(regs[d], src); else res = sraRgnSubtract(regs[d], src);
      if (d == s) sraRgnDestroy(src);
      shadow_binop(d, &B, op);
      os_clear(&B);
      nonempty = shadow[d].n > 0;
      if (op != 0 && (!!res) != nonempty)
        oracle_fail("%s returned %d but the result set is %s", tok[0], (int)res, nonempty ? "non-empty" : "empty");
      if (op == 0) printf("ok"); else printf("%d", res ? 1 : 0);
      finish_dest(d, op == 0 ? "or (union)" : op == 1 ? "and (intersection)" : "subtract (difference)");
    } else if (!strcmp(tok[0], "offset") && n == 4 && (d = regno(tok[1])) >= 0 && geti(tok[2], &v[0]) && geti(tok[3], &v[1])) {
      if (raw[d]) { puts("bad-op"); continue; }
      for (i = 0; i < shadow[d].n; i++) {
        orect *r = &shadow[d].r[i];
        r->x1 += v[0]; r->x2 += v[0]; r->y1 += v[1]; r->y2 += v[1];
        if (r->x1 < INT_MIN || r->x2 > INT_MAX || r->y1 < INT_MIN || r->y2 > INT_MAX) {
          fprintf(stderr, "script error: offset overflows int (undefined behaviour in C), refused\n"); return 4;
        }
      }
      sraRgnOffset(regs[d], (int)v[0], (int)v[1]);
      printf("ok"); finish_dest(d, "offset (translation)");
    } else if (!strcmp(tok[0], "bbox") && n == 3 && (d = regno(tok[1])) >= 0 && (s = regno(tok[2])) >= 0) {
      sraRegionPtr nb; oset E = {0};
      if (raw[s]) { puts("bad-op"); continue; }
      if (shadow[s].n) {
        orect b = shadow[s].r[0];
        for (i = 1; i < shadow[s].n; i++) {
          const orect *r = &shadow[s].r[i];
          if (r->x1 < b.x1) b.x1 = r->x1; if (r->y1 < b.y1) b.y1 = r->y1;
          if (r->x2 > b.x2) b.x2 = r->x2; if (r->y2 > b.y2) b.y2 = r->y2;
        }
        os_push(&E, b);
      }
      nb = sraRgnBBox(regs[s]);
      sraRgnDestroy(regs[d]); regs[d] = nb; raw[d] = 0;
      os_clear(&shadow[d]); shadow[d] = E;
      printf("ok"); finish_dest(d, "bbox");
    } else if (!strcmp(tok[0], "pop") && n == 3 && (d = regno(tok[1])) >= 0 && geti(tok[2], &v[0]) && v[0] >= 0) {
      sraRect rc; rfbBool res; orect pr; oset P = {0};
      if (raw[d]) { puts("bad-op"); continue; }
      res = sraRgnPopRect(regs[d], &rc, (unsigned long)v[0]);
      if (!res) {
        if (shadow[d].n) oracle_fail("popRect returned 0 on a non-empty region");
        printf("0");
      } else {
        const oset *sets[2]; grid g; uint64_t *a, *p; int x, y, a0, b0, y0, y1; size_t k, nn;
        pr.x1 = rc.x1; pr.y1 = rc.y1; pr.x2 = rc.x2; pr.y2 = rc.y2;
        if (!proper(&pr)) oracle_fail("popRect returned an empty rectangle");
        os_push(&P, pr);
        sets[0] = &shadow[d]; sets[1] = &P;
        grid_build(&g, sets, 2);
        a = bm_new(&g); p = bm_new(&g);
        bm_set(&g, a, &shadow[d]); bm_set(&g, p, &P);
        nn = (size_t)g.rows * g.W;
        for (k = 0; k < nn; k++) if (p[k] & ~a[k]) oracle_fail("popRect returned a rectangle not inside the region");
        a0 = gidx(g.xs, g.nx, pr.x1); b0 = gidx(g.xs, g.nx, pr.x2);
        y0 = gidx(g.ys, g.ny, pr.y1); y1 = gidx(g.ys, g.ny, pr.y2);
        /* extreme in the requested directions */
        if (v[0] & 1) { for (y = y1; y < g.rows; y++) for (x = 0; x < g.nx - 1; x++) if (bm_get(&g, a, x, y)) oracle_fail("popRect(bottom-to-top) did not return a bottom-most rectangle"); }
        else { for (y = 0; y < y0; y++) for (x = 0; x < g.nx - 1; x++) if (bm_get(&g, a, x, y)) oracle_fail("popRect(top-to-bottom) did not return a top-most rectangle"); }
        for (y = y0; y < y1; y++) {
          if (v[0] & 2) { for (x = b0; x < g.nx - 1; x++) if (bm_get(&g, a, x, y)) oracle_fail("popRect(right-to-left) did not return the right-most rectangle of its rows"); }
          else { for (x = 0; x < a0; x++) if (bm_get(&g, a, x, y)) oracle_fail("popRect(left-to-right) did not return the left-most rectangle of its rows"); }
        }
        for (k = 0; k < nn; k++) a[k] &= ~p[k];
        bm_canon(&g, a, &shadow[d]);
        free(a); free(p); grid_free(&g); os_clear(&P);
        printf("1 %d,%d,%d,%d", rc.x1, rc.y1, rc.x2, rc.y2);
      }
      finish_dest(d, "popRect (remaining region)");
    } else if (!strcmp(tok[0], "count") && n == 2 && (s = regno(tok[1])) >= 0) {
      oset l = {0};
      lib_list(regs[s], 0, 0, &l);
      check_list(&l, &shadow[s], 0, 0, raw[s], regs[s], "count");
      printf("%lu\n", sraRgnCountRects(regs[s]));
      os_clear(&l);
    } else if (!strcmp(tok[0], "isempty") && n == 2 && (s = regno(tok[1])) >= 0) {
      rfbBool e;
      if (raw[s]) { puts("bad-op"); continue; }
      e = sraRgnEmpty(regs[s]);
      if ((!!e) != (shadow[s].n == 0)) oracle_fail("sraRgnEmpty = %d but the region's pixel set is %s", (int)e, shadow[s].n ? "non-empty" : "empty");
      printf("%d\n", e ? 1 : 0);
    } else if (!strcmp(tok[0], "iter") && n == 4 && (s = regno(tok[1])) >= 0 &&
               (tok[2][0] == '0' || tok[2][0] == '1') && !tok[2][1] && (tok[3][0] == '0' || tok[3][0] == '1') && !tok[3][1]) {
      oset l = {0}; int rx = tok[2][0] == '1', ry = tok[3][0] == '1';
      lib_list(regs[s], rx, ry, &l);
      check_list(&l, &shadow[s], rx, ry, raw[s], regs[s], "iterator");
      print_list(&l); putchar('\n');
      os_clear(&l);
    } else if ((!strcmp(tok[0], "clip") || !strcmp(tok[0], "clip2")) && n == 9 &&
               geti(tok[1], &v[0]) && geti(tok[2], &v[1]) && geti(tok[3], &v[2]) && geti(tok[4], &v[3]) &&
               geti(tok[5], &v[4]) && geti(tok[6], &v[5]) && geti(tok[7], &v[6]) && geti(tok[8], &v[7])) {
      int a = (int)v[0], b = (int)v[1], c = (int)v[2], e = (int)v[3]; rfbBool res;
      if (!strcmp(tok[0], "clip")) {
        /* intersection of [x,x+w)x[y,y+h) with [cx,cx+cw)x[cy,cy+ch) */
        ll ex1 = v[0] > v[4] ? v[0] : v[4], ey1 = v[1] > v[5] ? v[1] : v[5];
        ll ex2 = v[0] + v[2] < v[4] + v[6] ? v[0] + v[2] : v[4] + v[6];
        ll ey2 = v[1] + v[3] < v[5] + v[7] ? v[1] + v[3] : v[5] + v[7];
        int ne = ex1 < ex2 && ey1 < ey2;
        res = sraClipRect(&a, &b, &c, &e, (int)v[4], (int)v[5], (int)v[6], (int)v[7]);
        if ((!!res) != ne) oracle_fail("sraClipRect returned %d but the intersection is %s", (int)res, ne ? "non-empty" : "empty");
        if ((!!res) != (c > 0 && e > 0))
          oracle_fail("sraClipRect returned %d but the rectangle it hands back has w=%d h=%d", (int)res, c, e);
        if (ne && (a != ex1 || b != ey1 || (ll)a + c != ex2 || (ll)b + e != ey2))
          oracle_fail("sraClipRect result %d,%d,%d,%d is not the intersection", a, b, c, e);
      } else {
        ll ex1 = v[0] > v[4] ? v[0] : v[4], ey1 = v[1] > v[5] ? v[1] : v[5];
        ll ex2 = v[2] < v[6] ? v[2] : v[6], ey2 = v[3] < v[7] ? v[3] : v[7];
        int ne = ex1 < ex2 && ey1 < ey2;
        res = sraClipRect2(&a, &b, &c, &e, (int)v[4], (int)v[5], (int)v[6], (int)v[7]);
        /* the return value must say whether the rectangle handed back is non-empty */
        if ((!!res) != (c > a && e > b))
          oracle_fail("sraClipRect2 returned %d but the rectangle it hands back (%d,%d)-(%d,%d) is %s", (int)res, a, b, c, e, (c > a && e > b) ? "non-empty" : "empty");
        if (ne && (!res || a != ex1 || b != ey1 || c != ex2 || e != ey2))
          oracle_fail("sraClipRect2 result %d: %d,%d,%d,%d is not the intersection of intersecting rectangles", (int)res, a, b, c, e);
        if (v[0] < v[2] && v[1] < v[3] && v[4] < v[6] && v[5] < v[7] && (!res || a < v[4] || c > v[6] || b < v[5] || e > v[7] || a >= c || b >= e))
          oracle_fail("sraClipRect2 result %d: %d,%d,%d,%d is not a non-empty rectangle inside the clip rectangle (both inputs non-empty)", (int)res, a, b, c, e);
      }
      printf("%d %d %d %d %d\n", res ? 1 : 0, a, b, c, e);
    } else puts("bad-op");
    fflush(stdout);
  }
  for (i = 0; i < NREG; i++) { sraRgnDestroy(regs[i]); os_clear(&shadow[i]); }
  return 0;
}
