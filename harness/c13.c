/* C13 harness: the REAL threaded server (rfbRunEventLoop(...,TRUE): listenerRun, clientInput,
 * clientOutput) under a deterministic cooperative scheduler.
 *
 * Link-level interposition (this executable defines them; the real ones are reached through
 * dlsym(RTLD_NEXT)) of
 *     pthread_mutex_init/destroy/lock/trylock/unlock, pthread_cond_init/destroy/wait/timedwait/
 *     signal/broadcast, pthread_create/join/detach, select, usleep, read, write, recv, send,
 *     accept, close, pipe
 * Exactly one managed thread runs at a time (baton = one semaphore per thread).  Every interposed
 * call is a scheduling point; the next thread is drawn from a seeded PRNG (uniform / sticky / PCT
 * priorities with d change points).  Time is virtual: usleep and select time-outs are deadlines on a
 * virtual clock that advances by a quantum per scheduling point and jumps when nothing is enabled.
 *
 * The run emits an event trace (thread role, lock class, client id) that the Lean driver checks for
 * trace inclusion in the model, and evaluates the direct oracles of the property:
 *   deadlock / hang (no enabled thread, or virtual-time / step budget exhausted: who holds what),
 *   ASan (use after free / double free; sync objects are touched by an instrumented read first),
 *   mutex misuse (unlock by non-owner, lock of destroyed mutex, double join),
 *   clientGoneHook count per client == 1 at the end,
 *   final decoded framebuffer of every client that stayed connected == server framebuffer,
 *   threads created by the library that were never joined / still alive at the end,
 *   mapping count / VmSize before and after N connect-disconnect cycles.
 *
 * Script (stdin), one op per line:
 *   cfg w h defer listen maxwait seed mode d budget stick      (first line)
 *   peer k kind p1 p2 flags         kinds: stay leave abrupt slow abandon stall; flags: 1 no cursor-shape
 *                                   encoding (server draws the cursor), 2 no NewFBSize; stall: after its first
 *                                   request the peer reads nothing for p1 ms (virtual), then closes (p2=0) or
 *                                   reads on (p2=1)
 *   drop k                          the peer's connection is shut down from outside (both directions)
 *   halfclose k                     the peer's sending direction is shut down (the server reads EOF, the
 *                                   peer may go on reading or not)
 *   suspend R k / resume R k        the library thread with role R (I or O) of the client of peer k is not
 *                                   scheduled between the two (a legal schedule: the thread just does not run)
 *   cfg field 14 `sharing`          1 screen->dontDisconnect, 2 neverShared, 4 alwaysShared; peer flag 4: the
 *                                   peer sends ClientInit shared=0
 *   iterhold h wait k1 k2 ...       application iterator: advance to the (h+1)-th client and rest on it while
 *                                   the peers k1 k2 ... are dropped one after the other (wait ms in between),
 *                                   then walk to the end of the list reading every client handed out
 *   connect k | sleep ms | mark x y w h v | copy x y w h dx dy | bell | cut n | cututf8 n fb |
 *   iter | newfb w h v | cycle n | settle ms | shutdown | cleanup
 * Output: "ev ..." trace lines, then "res ..." lines.  Exit code 0 unless the harness itself broke
 * (sanitizer reports exit non-zero on their own).
 */
#define _GNU_SOURCE
#include <dlfcn.h>
#include <semaphore.h>
#include <signal.h>
#include <stdarg.h>
#include <sys/un.h>
#include <sys/select.h>
#include <sys/time.h>
#include <pthread.h>
#include "sess.h"

/* ------------------------------------------------------------------------------------------ */
/* real functions                                                                              */
static int (*r_mutex_init)(pthread_mutex_t *, const pthread_mutexattr_t *);
static int (*r_mutex_destroy)(pthread_mutex_t *);
static int (*r_mutex_lock)(pthread_mutex_t *);
static int (*r_mutex_trylock)(pthread_mutex_t *);
static int (*r_mutex_unlock)(pthread_mutex_t *);
static int (*r_cond_init)(pthread_cond_t *, const pthread_condattr_t *);
static int (*r_cond_destroy)(pthread_cond_t *);
static int (*r_cond_wait)(pthread_cond_t *, pthread_mutex_t *);
static int (*r_cond_timedwait)(pthread_cond_t *, pthread_mutex_t *, const struct timespec *);
static int (*r_cond_signal)(pthread_cond_t *);
static int (*r_cond_broadcast)(pthread_cond_t *);
static int (*r_create)(pthread_t *, const pthread_attr_t *, void *(*)(void *), void *);
static int (*r_join)(pthread_t, void **);
static int (*r_detach)(pthread_t);
static int (*r_select)(int, fd_set *, fd_set *, fd_set *, struct timeval *);
static int (*r_usleep)(useconds_t);
static ssize_t (*r_read)(int, void *, size_t);
static ssize_t (*r_write)(int, const void *, size_t);
static ssize_t (*r_recv)(int, void *, size_t, int);
static ssize_t (*r_send)(int, const void *, size_t, int);
static int (*r_accept)(int, struct sockaddr *, socklen_t *);
static int (*r_close)(int);

static void resolve(void) {
  static int done;
  if (done) return;
  done = 1;
#define R(v, n) v = dlsym(RTLD_NEXT, n)
  R(r_mutex_init, "pthread_mutex_init"); R(r_mutex_destroy, "pthread_mutex_destroy");
  R(r_mutex_lock, "pthread_mutex_lock"); R(r_mutex_trylock, "pthread_mutex_trylock");
  R(r_mutex_unlock, "pthread_mutex_unlock");
  R(r_cond_init, "pthread_cond_init"); R(r_cond_destroy, "pthread_cond_destroy");
  R(r_cond_wait, "pthread_cond_wait"); R(r_cond_timedwait, "pthread_cond_timedwait");
  R(r_cond_signal, "pthread_cond_signal"); R(r_cond_broadcast, "pthread_cond_broadcast");
  R(r_create, "pthread_create"); R(r_join, "pthread_join"); R(r_detach, "pthread_detach");
  R(r_select, "select"); R(r_usleep, "usleep");
  R(r_read, "read"); R(r_write, "write"); R(r_recv, "recv"); R(r_send, "send");
  R(r_accept, "accept"); R(r_close, "close");
#undef R
}
__attribute__((constructor(101))) static void resolve_ctor(void) { resolve(); }

/* ------------------------------------------------------------------------------------------ */
/* scheduler state                                                                             */
enum { T_RUN, T_MUTEX, T_COND, T_JOIN, T_SELECT, T_SLEEP, T_EXITED };
static const char *tstate_name[] = { "run", "mutex", "cond", "join", "select", "sleep", "exited" };
#define MAXT 256
#define MAXPFD 16
typedef struct sthread {
  int idx, state;
  char role;            /* A app, L listener, I input, O output, P peer, X other */
  int cid;              /* client id (I/O), peer index (P) */
  void *obj;            /* sync object waited for (index into tables) */
  void *obj2;           /* mutex to re-acquire after a cond wait */
  int signaled;
  uint64_t deadline; int has_deadline;
  struct pollfd pfd[MAXPFD]; int npfd;
  sem_t sem;
  pthread_t real;
  int started, joined, detached, lib;   /* lib: created by library code (not a peer) */
  long prio;
  void *(*fn)(void *); void *arg;
  int yielded;
  int suspended;        /* script op `suspend`: not scheduled until `resume` */
  const char *where;    /* last interposed op (diagnostics) */
} sthread;
static sthread thr[MAXT];
static int nthr;
static __thread sthread *self;
static volatile int sched_on;
static uint64_t vtime_us, steps, step_budget = 400000, vtime_limit_us = 600ull * 1000000;
static uint64_t quantum_us = 20;
static int sched_mode = 0;      /* 0 uniform, 1 sticky, 2 pct */
static int stickiness = 70;
static int pct_d = 3; static uint64_t pct_cp[16]; static long pct_low = 0;
static uint64_t srng;
static uint64_t srand64(void) {
  uint64_t z = (srng += 0x9E3779B97F4A7C15ull);
  z = (z ^ (z >> 30)) * 0xBF58476D1CE4E5B9ull;
  z = (z ^ (z >> 27)) * 0x94D049BB133111EBull;
  return z ^ (z >> 31);
}

/* tracked sync objects */
#define MAXOBJ 4096
typedef struct { void *addr; int kind;          /* 0 mutex 1 cond */
  sthread *owner; int live, recursive, depth;
  char cls; int cid;                             /* class letter + client id (-1 = global) */
  int serial; } sobj;
static sobj objs[MAXOBJ];
static int nobj;
static sobj *obj_find(void *addr, int kind) {
  int i;
  for (i = nobj - 1; i >= 0; i--) if (objs[i].addr == addr && objs[i].kind == kind) return &objs[i];
  return NULL;
}
static void die(const char *fmt, ...);
static sobj *obj_new(void *addr, int kind) {
  sobj *o = obj_find(addr, kind);
  if (!o) {
    if (nobj >= MAXOBJ) {      /* recycle dead entries */
      int i, j = 0;
      for (i = 0; i < nobj; i++) if (objs[i].live) objs[j++] = objs[i];
      if (j >= MAXOBJ) die("too many sync objects");
      /* events refer to serials, threads refer to pointers of live objects only */
      { int k; for (k = 0; k < nthr; k++) { /* re-point waiting threads */
          if (thr[k].state == T_MUTEX || thr[k].state == T_COND) {
            sobj *old = (sobj *)thr[k].obj; int m;
            for (m = 0; m < j; m++) if (objs[m].serial == old->serial) thr[k].obj = &objs[m];
          }
          if (thr[k].obj2) { sobj *old = (sobj *)thr[k].obj2; int m;
            for (m = 0; m < j; m++) if (objs[m].serial == old->serial) thr[k].obj2 = &objs[m]; }
        } }
      nobj = j;
    }
    o = &objs[nobj++];
  }
  { static int serial; memset(o, 0, sizeof *o); o->addr = addr; o->kind = kind; o->live = 1;
    o->cls = '?'; o->cid = -1; o->serial = ++serial; }
  return o;
}

/* ------------------------------------------------------------------------------------------ */
/* event trace                                                                                 */
enum { E_LOCK, E_UNLOCK, E_WAIT, E_WAKE, E_SIGNAL, E_BCAST, E_CREATE, E_JOIN, E_EXIT, E_MINIT,
       E_MDESTROY, E_CINIT, E_CDESTROY, E_CALL, E_RET, E_GONE, E_NEWCL, E_WFAIL, E_NOTE, E_PIPEW,
       E_CLOSE, E_START, E_ALLOC, E_ST, E_SOCK };
static const char *ev_name[] = { "lock", "unlock", "wait", "wake", "signal", "bcast", "create", "join",
  "exit", "minit", "mdestroy", "cinit", "cdestroy", "call", "ret", "gone", "newcl", "wfail", "note",
  "pipew", "close", "start", "alloc", "st", "sock" };
typedef struct { int thr, kind, serial, a; const char *s; } event;
static event *evs; static size_t nev, capev;
static int obj_serial_cls[1 << 20];  /* serial -> cls<<24 | (cid+1) ; filled at naming/print time */
static void ev(int kind, sobj *o, int a, const char *s) {
  if (nev == capev) { capev = capev ? capev * 2 : 4096; evs = realloc(evs, capev * sizeof *evs); }
  evs[nev].thr = self ? self->idx : 0; evs[nev].kind = kind; evs[nev].serial = o ? o->serial : 0;
  evs[nev].a = a; evs[nev].s = s; nev++;
}
static void tname(int idx, char *buf) {
  sthread *t = &thr[idx];
  if (t->role == 'A' || t->role == 'L') sprintf(buf, "%c", t->role);
  else sprintf(buf, "%c%d", t->role, t->cid);
}
static void oname(int serial, char *buf) {
  int v = (serial > 0 && serial < (1 << 20)) ? obj_serial_cls[serial] : 0;
  if (!v) { sprintf(buf, "?%d", serial); return; }
  if ((v & 0xffffff) == 0) sprintf(buf, "%c", v >> 24); else sprintf(buf, "%c%d", v >> 24, (v & 0xffffff) - 1);
}
static void name_obj(sobj *o, char cls, int cid) {
  o->cls = cls; o->cid = cid;
  if (o->serial < (1 << 20)) obj_serial_cls[o->serial] = (cls << 24) | (cid + 1);
}
static size_t ev_printed;
static void dump_trace(void) {
  size_t i; char a[32], b[32];
  for (i = ev_printed; i < nev; i++) {
    event *e = &evs[i];
    tname(e->thr, a);
    switch (e->kind) {
    case E_CREATE: case E_JOIN: tname(e->a, b); printf("ev %s %s %s\n", a, ev_name[e->kind], b); break;
    case E_EXIT: case E_START: printf("ev %s %s\n", a, ev_name[e->kind]); break;
    case E_CALL: case E_RET: case E_NOTE: printf("ev %s %s %s %d\n", a, ev_name[e->kind], e->s ? e->s : "-", e->a); break;
    case E_ST: printf("ev %s st %d %s\n", a, e->a, e->s); break;
    case E_GONE: case E_NEWCL: case E_WFAIL: case E_PIPEW: case E_CLOSE: case E_ALLOC: case E_SOCK:
      printf("ev %s %s %d\n", a, ev_name[e->kind], e->a); break;
    default: oname(e->serial, b); printf("ev %s %s %s\n", a, ev_name[e->kind], b); break;
    }
  }
  ev_printed = nev;
  fflush(stdout);
}

/* ------------------------------------------------------------------------------------------ */
static void dump_threads(void) {
  int i, j; char a[32], b[32];
  for (i = 0; i < nthr; i++) {
    sthread *t = &thr[i];
    tname(i, a);
    printf("res thread %s state=%s at=%s", a, tstate_name[t->state], t->where ? t->where : "-");
    if ((t->state == T_MUTEX || t->state == T_COND) && t->obj) {
      sobj *o = (sobj *)t->obj; oname(o->serial, b); printf(" on=%s", b);
      if (t->state == T_MUTEX && o->owner) { tname(o->owner->idx, b); printf(" owner=%s", b); }
    }
    if (t->state == T_JOIN && t->obj) { tname(((sthread *)t->obj)->idx, b); printf(" target=%s", b); }
    printf(" holds=");
    for (j = 0; j < nobj; j++) if (objs[j].kind == 0 && objs[j].live && objs[j].owner == t) { oname(objs[j].serial, b); printf("%s,", b); }
    printf("\n");
  }
}
static int finishing;
static void finish_fail(const char *kind, const char *detail) {
  if (finishing) _exit(2);
  finishing = 1;
  sched_on = 0;
  dump_trace();
  printf("res %s %s vtime_us=%llu steps=%llu\n", kind, detail, (unsigned long long)vtime_us, (unsigned long long)steps);
  dump_threads();
  printf("res end failed\n");
  fflush(stdout);
  _exit(0);
}
static void die(const char *fmt, ...) {
  va_list ap; char buf[512];
  va_start(ap, fmt); vsnprintf(buf, sizeof buf, fmt, ap); va_end(ap);
  fprintf(stderr, "c13 harness: %s\n", buf);
  if (!finishing) { finishing = 1; sched_on = 0; dump_trace(); printf("res harness-error %s\n", buf); fflush(stdout); }
  _exit(2);
}
/* sanitizer death: flush the trace so that the failing schedule can be classified */
void __sanitizer_set_death_callback(void (*)(void));
static void on_asan_death(void) {
  if (finishing) return;
  finishing = 1; sched_on = 0;
  dump_trace();
  printf("res sanitizer-abort vtime_us=%llu steps=%llu\n", (unsigned long long)vtime_us, (unsigned long long)steps);
  dump_threads();
  fflush(stdout);
  _exit(1);      /* the report is complete; do not wait for anything else */
}
/* called by the sanitizer runtime when it has detected an error, before it prints the report: from
   here on the interposers must not schedule any more (the report machinery itself reads and writes) */
void __asan_on_error(void) { sched_on = 0; }
/* real-time watchdog: NOT a verdict (a loaded machine can trip it); the driver repeats such a run alone
   with a longer limit (environment C13_ALARM_S) before anything is reported */
static void on_alarm(int sig) {
  static const char m[] = "res realtime-watchdog\n";
  (void)sig; sched_on = 0;
  fflush(stdout);
  if (r_write) r_write(1, m, sizeof m - 1);
  _exit(124);
}

/* ------------------------------------------------------------------------------------------ */
static int enabled(sthread *t) {
  if (t->suspended) return 0;
  switch (t->state) {
  case T_RUN: return 1;
  case T_MUTEX: { sobj *o = (sobj *)t->obj; return o->owner == NULL || (o->recursive && o->owner == t); }
  case T_COND: return 0;
  case T_JOIN: return ((sthread *)t->obj)->state == T_EXITED;
  case T_SLEEP: return vtime_us >= t->deadline;
  case T_SELECT:
    if (t->has_deadline && vtime_us >= t->deadline) return 1;
    if (t->npfd == 0) return 0;
    { int i, r; for (i = 0; i < t->npfd; i++) t->pfd[i].revents = 0;
      r = poll(t->pfd, t->npfd, 0); return r > 0; }
  default: return 0;
  }
}
static sthread *choose(sthread **en, int n, sthread *me, int me_enabled) {
  int i;
  if (sched_mode == 2) {
    sthread *best = en[0];
    for (i = 1; i < n; i++) if (en[i]->prio > best->prio) best = en[i];
    return best;
  }
  if (sched_mode == 1 && me_enabled && (int)(srand64() % 100) < stickiness) return me;
  return en[srand64() % n];
}
static void observe(void);
/* the calling thread has set its own state; returns when it has been chosen to continue */
static void sched_point(const char *where) {
  sthread *me = self, *en[MAXT], *next;
  int i, n, me_en;
  me->where = where;
  if (me->role != 'P') observe();
  steps++; vtime_us += quantum_us;
  if (sched_mode == 2) {
    for (i = 0; i < pct_d; i++) if (steps == pct_cp[i]) me->prio = --pct_low;
    if (me->yielded) { me->prio = --pct_low; }
  }
  me->yielded = 0;
  /* wait-for cycle through mutex owners / join targets starting at the calling thread */
  if (me->state == T_MUTEX || me->state == T_JOIN) {
    sthread *t = me; int hops = 0;
    while (t && hops++ <= nthr) {
      sthread *nx = NULL;
      if (t->state == T_MUTEX) { sobj *o = (sobj *)t->obj; nx = (o->recursive && o->owner == t) ? NULL : o->owner; }
      else if (t->state == T_JOIN) { nx = (sthread *)t->obj; if (nx->state == T_EXITED) nx = NULL; }
      else break;
      if (nx == me) finish_fail("deadlock", hops == 1 ? "self-deadlock" : "wait-for-cycle");
      t = nx;
    }
  }
  if (steps > step_budget) finish_fail("hang", "step-budget");
  if (vtime_us > vtime_limit_us) finish_fail("hang", "vtime-limit");
  for (;;) {
    n = 0; me_en = 0;
    for (i = 0; i < nthr; i++) if (thr[i].state != T_EXITED && enabled(&thr[i])) { en[n++] = &thr[i]; if (&thr[i] == me) me_en = 1; }
    if (n) break;
    { uint64_t best = 0; int have = 0;
      for (i = 0; i < nthr; i++) {
        sthread *t = &thr[i];
        if ((t->state == T_SLEEP) || (t->state == T_SELECT && t->has_deadline))
          if (!have || t->deadline < best) { best = t->deadline; have = 1; }
      }
      if (!have) finish_fail("deadlock", "no-thread-enabled");
      if (best > vtime_us) vtime_us = best;
      if (vtime_us > vtime_limit_us) finish_fail("hang", "vtime-limit");
    }
  }
  next = choose(en, n, me, me_en);
  if (next != me) {
    sem_post(&next->sem);
    if (me->state == T_EXITED) return;
    while (sem_wait(&me->sem) != 0) ;
  }
}
static void touch(void *p) { volatile char c = *(volatile char *)p; (void)c; }
#define MANAGED() (sched_on && self)

static sthread *new_thread(char role, int cid) {
  sthread *t;
  if (nthr >= MAXT) die("too many threads");
  t = &thr[nthr]; memset(t, 0, sizeof *t); t->idx = nthr++;
  t->role = role; t->cid = cid; t->state = T_RUN;
  sem_init(&t->sem, 0, 0);
  t->prio = 1000 + (long)(srand64() % 1000000);
  return t;
}

/* ------------------------------------------------------------------------------------------ */
/* client registry (roles, lock classes)                                                       */
#define MAXCL 512
typedef struct peer peer;
typedef struct { rfbClientPtr cl; int cid, gone, live, hooked; peer *p; int sock, pipe_w; int obs_st, obs_sock; } clrec;
static clrec clients[MAXCL];
static int nclients;
static rfbScreenInfoPtr scr;
static int in_newclient;
static void *list_mutex_addr;
static void classify(sobj *o) {
  int i;
  char *a = (char *)o->addr;
  if (o->cls != '?') return;
  if (scr && a == (char *)&scr->cursorMutex) { name_obj(o, 'C', -1); return; }
  if (list_mutex_addr && a == (char *)list_mutex_addr) { name_obj(o, 'L', -1); return; }
  for (i = nclients - 1; i >= 0; i--) {
    rfbClientPtr cl = clients[i].cl;
    if (!clients[i].live) continue;
    if (a < (char *)cl || a >= (char *)cl + sizeof(rfbClientRec)) continue;
    if (o->kind == 0) {
      if (a == (char *)&cl->updateMutex) name_obj(o, 'U', i);
      else if (a == (char *)&cl->sendMutex) name_obj(o, 'S', i);
      else if (a == (char *)&cl->outputMutex) name_obj(o, 'O', i);
      else if (a == (char *)&cl->refCountMutex) name_obj(o, 'R', i);
    } else {
      if (a == (char *)&cl->updateCond) name_obj(o, 'u', i);
      else if (a == (char *)&cl->deleteCond) name_obj(o, 'd', i);
    }
    return;
  }
}
/* plain fields that steer control in other threads: a change made by the code that ran since the
   calling thread's previous scheduling point is logged here, i.e. at its exact place in the global
   order (nothing else has run in between) */
static const char *st_class(int st) { return st == RFB_NORMAL ? "normal" : st == RFB_SHUTDOWN ? "shutdown" : "hs"; }
static void observe(void) {
  int i;
  for (i = 0; i < nclients; i++) if (clients[i].live) {
    rfbClientPtr cl = clients[i].cl; int so = cl->sock >= 0;
    const char *c = st_class(cl->state);
    int code = c[0];
    if (code != clients[i].obs_st) { clients[i].obs_st = code; ev(E_ST, NULL, i, c); }
    if (so != clients[i].obs_sock) { clients[i].obs_sock = so; if (!so) ev(E_SOCK, NULL, i, NULL); }
  }
}
static void classify_all(void) { int i; for (i = 0; i < nobj; i++) if (objs[i].live) classify(&objs[i]); }
static clrec *client_of(rfbClientPtr cl) {
  int i; for (i = nclients - 1; i >= 0; i--) if (clients[i].cl == cl && clients[i].live) return &clients[i];
  return NULL;
}

/* ------------------------------------------------------------------------------------------ */
/* interposers: mutexes                                                                        */
static void early_register(void *addr);
int pthread_mutex_init(pthread_mutex_t *m, const pthread_mutexattr_t *a) {
  resolve();
  if (MANAGED()) {
    sobj *o; int type = 0;
    early_register(m);
    o = obj_new(m, 0);
    if (a) pthread_mutexattr_gettype(a, &type);
    o->recursive = (type == PTHREAD_MUTEX_RECURSIVE);
    classify(o);
    ev(E_MINIT, o, 0, NULL);
  }
  return r_mutex_init(m, a);
}
int pthread_mutex_destroy(pthread_mutex_t *m) {
  resolve();
  if (MANAGED()) {
    sobj *o = obj_find(m, 0);
    if (o && o->live) {
      touch(m);
      classify(o);
      ev(E_MDESTROY, o, o->owner ? 1 : 0, NULL);
      if (o->owner) { dump_trace(); printf("res misuse destroy-locked-mutex\n"); }
      o->live = 0; o->owner = NULL;
    }
  }
  return r_mutex_destroy(m);
}
static int interleave_reported;
int pthread_mutex_lock(pthread_mutex_t *m) {
  sobj *o;
  if (!MANAGED()) { resolve(); return r_mutex_lock(m); }
  o = obj_find(m, 0);
  if (!o) return r_mutex_lock(m);
  touch(m);
  if (!o->live) finish_fail("misuse", "lock-of-destroyed-mutex");
  classify(o);
  self->state = T_MUTEX; self->obj = o;
  sched_point("mutex_lock");
  self->state = T_RUN;
  if (o->owner == self && o->recursive) o->depth++;
  else { o->owner = self; o->depth = 1; }
  ev(E_LOCK, o, 0, NULL);
  /* a write to client c (rfbWriteExact takes outputMutex) while ANOTHER thread is inside a send to c
     (holds sendMutex of c): the two messages interleave on the wire */
  if (o->cls == 'O' && o->cid >= 0 && !interleave_reported && (self->role == 'I' || self->role == 'O' || self->role == 'A')) {
    int i;
    for (i = 0; i < nobj; i++) if (objs[i].kind == 0 && objs[i].live && objs[i].cls == 'S' && objs[i].cid == o->cid &&
                                   objs[i].owner && objs[i].owner != self) {
      clrec *cr = (o->cid < nclients) ? &clients[o->cid] : NULL;
      if (cr && cr->live && cr->cl->state == RFB_NORMAL) {
        char a[32], b[32]; tname(self->idx, a); tname(objs[i].owner->idx, b);
        interleave_reported = 1; dump_trace();
        printf("res misuse write-inside-foreign-send client=%d writer=%s sender=%s\n", o->cid, a, b);
      }
      break;
    }
  }
  return 0;
}
int pthread_mutex_trylock(pthread_mutex_t *m) {
  sobj *o;
  if (!MANAGED()) { resolve(); return r_mutex_trylock(m); }
  o = obj_find(m, 0);
  if (!o) return r_mutex_trylock(m);
  touch(m);
  sched_point("mutex_trylock");
  if (o->owner && !(o->recursive && o->owner == self)) return EBUSY;
  if (o->owner == self) o->depth++; else { o->owner = self; o->depth = 1; }
  ev(E_LOCK, o, 1, NULL);
  return 0;
}
int pthread_mutex_unlock(pthread_mutex_t *m) {
  sobj *o;
  if (!MANAGED()) { resolve(); return r_mutex_unlock(m); }
  o = obj_find(m, 0);
  if (!o) return r_mutex_unlock(m);
  touch(m);
  classify(o);
  sched_point("mutex_unlock");
  if (o->owner != self) {
    char b[32], msg[96]; oname(o->serial, b);
    snprintf(msg, sizeof msg, "unlock-by-non-owner %s owner=%s", b, o->owner ? "other" : "none");
    finish_fail("misuse", msg);
  }
  if (--o->depth == 0) o->owner = NULL;
  ev(E_UNLOCK, o, 0, NULL);
  return 0;
}
/* condition variables */
int pthread_cond_init(pthread_cond_t *c, const pthread_condattr_t *a) {
  resolve();
  if (MANAGED()) { sobj *o = obj_new(c, 1); classify(o); ev(E_CINIT, o, 0, NULL); }
  return r_cond_init(c, a);
}
int pthread_cond_destroy(pthread_cond_t *c) {
  resolve();
  if (MANAGED()) {
    sobj *o = obj_find(c, 1);
    if (o && o->live) {
      int i, w = 0;
      touch(c); classify(o);
      for (i = 0; i < nthr; i++) if (thr[i].state == T_COND && thr[i].obj == o) w++;
      ev(E_CDESTROY, o, w, NULL);
      if (w) finish_fail("misuse", "destroy-cond-with-waiters");
      o->live = 0;
      return 0;      /* never hand a tracked cond to the real implementation */
    }
  }
  return r_cond_destroy(c);
}
static int cond_wait_common(pthread_cond_t *c, pthread_mutex_t *m, const struct timespec *abst) {
  sobj *oc = obj_find(c, 1), *om = obj_find(m, 0);
  if (!oc || !om) { return abst ? r_cond_timedwait(c, m, abst) : r_cond_wait(c, m); }
  touch(c); touch(m);
  classify(oc); classify(om);
  sched_point("cond_wait");
  if (om->owner != self) finish_fail("misuse", "cond-wait-without-mutex");
  om->owner = NULL; om->depth = 0;
  ev(E_WAIT, oc, 0, NULL);
  self->state = T_COND; self->obj = oc; self->obj2 = om; self->signaled = 0;
  sched_point("cond_wait(blocked)");
  /* chosen again: we were signalled (state was turned into T_MUTEX on om) and om is free */
  self->state = T_RUN; self->obj2 = NULL;
  om->owner = self; om->depth = 1;
  ev(E_WAKE, oc, 0, NULL);
  return 0;
}
int pthread_cond_wait(pthread_cond_t *c, pthread_mutex_t *m) {
  if (!MANAGED()) { resolve(); return r_cond_wait(c, m); }
  return cond_wait_common(c, m, NULL);
}
int pthread_cond_timedwait(pthread_cond_t *c, pthread_mutex_t *m, const struct timespec *t) {
  if (!MANAGED()) { resolve(); return r_cond_timedwait(c, m, t); }
  return cond_wait_common(c, m, t);   /* not used by the library; treated as untimed */
}
static int cond_wake(pthread_cond_t *c, int all) {
  sobj *oc = obj_find(c, 1);
  sthread *w[MAXT]; int i, n = 0;
  if (!oc) return all ? r_cond_broadcast(c) : r_cond_signal(c);
  touch(c); classify(oc);
  sched_point(all ? "cond_broadcast" : "cond_signal");
  for (i = 0; i < nthr; i++) if (thr[i].state == T_COND && thr[i].obj == oc) w[n++] = &thr[i];
  ev(all ? E_BCAST : E_SIGNAL, oc, n, NULL);
  if (n) {
    if (all) for (i = 0; i < n; i++) { w[i]->state = T_MUTEX; w[i]->obj = w[i]->obj2; }
    else { sthread *t = w[srand64() % n]; t->state = T_MUTEX; t->obj = t->obj2; }
  }
  return 0;
}
int pthread_cond_signal(pthread_cond_t *c) { if (!MANAGED()) { resolve(); return r_cond_signal(c); } return cond_wake(c, 0); }
int pthread_cond_broadcast(pthread_cond_t *c) { if (!MANAGED()) { resolve(); return r_cond_broadcast(c); } return cond_wake(c, 1); }

/* ------------------------------------------------------------------------------------------ */
/* threads                                                                                     */
static void *trampoline(void *p) {
  sthread *t = (sthread *)p; void *r;
  self = t;
  while (sem_wait(&t->sem) != 0) ;
  t->started = 1;
  ev(E_START, NULL, 0, NULL);
  r = t->fn(t->arg);
  ev(E_EXIT, NULL, 0, NULL);
  t->state = T_EXITED;
  if (sched_on) sched_point("thread_exit");
  return r;
}
static char next_role = 0; static int next_cid = -1;
int pthread_create(pthread_t *th, const pthread_attr_t *attr, void *(*fn)(void *), void *arg) {
  sthread *t; int rc; char role = 'X'; int cid = -1, lib = 1;
  if (!MANAGED()) { resolve(); return r_create(th, attr, fn, arg); }
  if (next_role) { role = next_role; cid = next_cid; next_role = 0; lib = (role != 'P'); }
  else {
    clrec *c = client_of((rfbClientPtr)arg);
    if (arg == (void *)scr) role = 'L';
    else if (c) { cid = c->cid; role = (self->role == 'I' && self->cid == cid) ? 'O' : 'I';
      if (role == 'I') c->pipe_w = c->cl->pipe_notify_client_thread[1]; }
  }
  sched_point("pthread_create");
  t = new_thread(role, cid);
  t->fn = fn; t->arg = arg; t->lib = lib;
  ev(E_CREATE, NULL, t->idx, NULL);
  rc = r_create(th, attr, trampoline, t);
  if (rc != 0) die("real pthread_create failed %d", rc);
  t->real = *th;
  return 0;
}
static sthread *thread_by_real(pthread_t p) {
  int i; for (i = nthr - 1; i >= 0; i--) if (thr[i].real && pthread_equal(thr[i].real, p) && !thr[i].joined) return &thr[i];
  for (i = nthr - 1; i >= 0; i--) if (thr[i].real && pthread_equal(thr[i].real, p)) return &thr[i];
  return NULL;
}
int pthread_join(pthread_t p, void **ret) {
  sthread *t; int rc;
  if (!MANAGED()) { resolve(); return r_join(p, ret); }
  t = thread_by_real(p);
  if (!t) finish_fail("misuse", "join-of-unknown-thread");
  if (t->joined) finish_fail("misuse", "double-join");
  if (t == self) finish_fail("misuse", "self-join");
  self->state = T_JOIN; self->obj = t;
  sched_point("pthread_join");
  self->state = T_RUN;
  rc = r_join(p, ret);
  t->joined = 1;
  ev(E_JOIN, NULL, t->idx, NULL);
  return rc;
}
int pthread_detach(pthread_t p) {
  if (MANAGED()) { sthread *t = thread_by_real(p); if (t) t->detached = 1; }
  resolve();
  return r_detach(p);
}

/* ------------------------------------------------------------------------------------------ */
/* blocking calls and I/O                                                                      */
int select(int nfds, fd_set *r, fd_set *w, fd_set *e, struct timeval *tv) {
  struct timeval zero = { 0, 0 }; int fd, n = 0, rc;
  if (!MANAGED()) { resolve(); return r_select(nfds, r, w, e, tv); }
  for (fd = 0; fd < nfds && fd < FD_SETSIZE; fd++) {
    short evs_ = 0;
    if (r && FD_ISSET(fd, r)) evs_ |= POLLIN;
    if (w && FD_ISSET(fd, w)) evs_ |= POLLOUT;
    if (e && FD_ISSET(fd, e)) evs_ |= POLLPRI;
    if (!evs_) continue;
    if (n >= MAXPFD) die("select: too many fds");
    self->pfd[n].fd = fd; self->pfd[n].events = evs_; self->pfd[n].revents = 0; n++;
  }
  self->npfd = n;
  self->has_deadline = tv != NULL;
  if (tv) self->deadline = vtime_us + (uint64_t)tv->tv_sec * 1000000ull + (uint64_t)tv->tv_usec;
  self->state = T_SELECT;
  sched_point("select");
  self->state = T_RUN;
  rc = r_select(nfds, r, w, e, &zero);
  return rc;
}
int usleep(useconds_t us) {
  if (!MANAGED()) { resolve(); return r_usleep(us); }
  if (us == 0) { self->yielded = 1; sched_point("usleep(0)"); return 0; }
  self->state = T_SLEEP; self->deadline = vtime_us + us;
  sched_point("usleep");
  self->state = T_RUN;
  return 0;
}
static int is_client_sock(int fd) {
  int i; for (i = nclients - 1; i >= 0; i--) if (clients[i].live && clients[i].sock == fd) return i;
  return -1;
}
ssize_t read(int fd, void *b, size_t n) {
  if (!MANAGED()) { resolve(); return r_read(fd, b, n); }
  sched_point("read");
  return r_read(fd, b, n);
}
ssize_t recv(int fd, void *b, size_t n, int fl) {
  if (!MANAGED()) { resolve(); return r_recv(fd, b, n, fl); }
  sched_point("recv");
  return r_recv(fd, b, n, fl);
}
static int is_notify_pipe(int fd) {
  int i; if (fd < 0) return -1;
  for (i = nclients - 1; i >= 0; i--) if (clients[i].live && clients[i].pipe_w == fd) return i;
  return -1;
}
static int foreign_reported, stale_reported;
ssize_t write(int fd, const void *b, size_t n) {
  ssize_t rc; int c;
  if (!MANAGED()) { resolve(); return r_write(fd, b, n); }
  sched_point("write");
  if (self->role != 'P' && (c = is_notify_pipe(fd)) >= 0) ev(E_PIPEW, NULL, c, NULL);
  /* a write performed under outputMutex of client c (rfbWriteExact) must go to the socket client c has
     NOW: the descriptor number rfbWriteExact read before it took the mutex may have been closed by the
     client's input thread in the meantime (and handed out again: another client's socket, a notify pipe) */
  if (self->role != 'P' && !stale_reported) {
    int i;
    for (i = 0; i < nobj; i++) if (objs[i].kind == 0 && objs[i].live && objs[i].owner == self && objs[i].cls == 'O') {
      int want = objs[i].cid, is = is_client_sock(fd), pc = is_notify_pipe(fd);
      if (is != want) {
        stale_reported = 1; dump_trace();
        if (pc >= 0) printf("res misuse write-on-stale-descriptor holds=O%d fd=%d is-now=notify-pipe-of-client-%d\n", want, fd, pc);
        else if (is >= 0) printf("res misuse write-on-stale-descriptor holds=O%d fd=%d is-now=socket-of-client-%d\n", want, fd, is);
        else printf("res misuse write-on-stale-descriptor holds=O%d fd=%d is-now=closed-or-foreign\n", want, fd);
      }
      break;
    }
  }
  /* no byte of one client's stream may go to another client: a client thread writes to its own socket only */
  if ((self->role == 'I' || self->role == 'O') && (c = is_client_sock(fd)) >= 0 && c != self->cid && !foreign_reported++) {
    dump_trace(); printf("res misuse write-to-foreign-client-socket thread-of-client=%d socket-of-client=%d fd=%d\n", self->cid, c, fd);
  }
  rc = r_write(fd, b, n);
  if (rc < 0 && errno != EAGAIN && errno != EWOULDBLOCK && errno != EINTR && self->role != 'P') {
    int sv = errno; c = is_client_sock(fd);
    if (c >= 0) ev(E_WFAIL, NULL, c, NULL);
    errno = sv;
  }
  return rc;
}
ssize_t send(int fd, const void *b, size_t n, int fl) {
  if (!MANAGED()) { resolve(); return r_send(fd, b, n, fl); }
  sched_point("send");
  return r_send(fd, b, n, fl);
}
static int sndbuf;   /* >0: SO_SNDBUF of the server-side client sockets (small: writers block early) */
int accept(int fd, struct sockaddr *a, socklen_t *l) {
  if (!MANAGED()) { resolve(); return r_accept(fd, a, l); }
  sched_point("accept");
  { int nfd = r_accept(fd, a, l);
    if (nfd >= 0 && sndbuf > 0 && self && self->role == 'L') setsockopt(nfd, SOL_SOCKET, SO_SNDBUF, &sndbuf, sizeof sndbuf);
    return nfd; }
}
int close(int fd) {
  if (!MANAGED()) { resolve(); return r_close(fd); }
  sched_point("close");
  /* a descriptor must not be closed while another thread of the library still waits on it / is about
     to write to it: the number can be handed out again at once */
  if (self->role != 'P' && is_client_sock(fd) >= 0) {
    int i, j;
    for (i = 0; i < nthr; i++) if (&thr[i] != self && thr[i].lib && thr[i].state == T_SELECT)
      for (j = 0; j < thr[i].npfd; j++) if (thr[i].pfd[j].fd == fd) {
        char tb[32]; tname(i, tb); dump_trace(); printf("res misuse close-of-descriptor-in-use fd=%d waiting=%s\n", fd, tb); j = thr[i].npfd; }
    /* the number is free from now on: it no longer names this client's socket */
    for (i = 0; i < nclients; i++) if (clients[i].live && clients[i].sock == fd) clients[i].sock = -1;
  }
  return r_close(fd);
}

/* ------------------------------------------------------------------------------------------ */
/* virtual sleep for harness threads */
static void vsleep_ms(unsigned ms) { usleep(ms ? ms * 1000u : 0); }

/* ------------------------------------------------------------------------------------------ */
/* peers: minimal RFB 3.8 clients (raw + copyrect + rich cursor + newfbsize)                   */
enum { K_STAY, K_LEAVE, K_ABRUPT, K_SLOW, K_ABANDON, K_STALL };
struct peer {
  int idx, kind, p1, p2, soft, nonewfb, nonshared, extclip, extreq, second;
  int fd, connected, eof, handshook;
  int w, h; uint32_t *fb;
  int updates, bells, cuts, converged, finished, used;
  int cid;                      /* server-side client id, -1 unknown */
  int connect_seq;
  pthread_t th; int started, th_joined;
  int closed_by_peer;
};
#define MAXPEER 64
static peer peers[MAXPEER];
static int listen_mode, listen_fd = -1;
static char listen_name[64], listen_name2[64];
static int listen2_fd = -1;
static volatile int final_phase, server_down;
static int fbw, fbh; static uint32_t *server_fb;
static int connect_counter, accept_counter;
static int sharing;
static void on_cut_utf8(char *str, int len, rfbClientPtr cl) { (void)str; (void)len; (void)cl; }
static int guards;   /* 1 handshake-quiet before bell/cut, 2 wait for stray client threads before cleanup, 4 copy only while output threads idle */
static peer *pending_accept[MAXCL]; /* connect_seq -> peer */

static int p_wait(int fd, int wr, int timeout_ms) {
  fd_set s; struct timeval tv; FD_ZERO(&s); FD_SET(fd, &s);
  tv.tv_sec = timeout_ms / 1000; tv.tv_usec = (timeout_ms % 1000) * 1000;
  return select(fd + 1, wr ? NULL : &s, wr ? &s : NULL, NULL, &tv);
}
/* returns 1 ok, 0 eof/error/give-up */
static int p_read(peer *p, void *buf, size_t n) {
  size_t off = 0; int idle = 0;
  while (off < n) {
    size_t want = n - off; ssize_t r;
    if (p->kind == K_SLOW && !final_phase && want > (size_t)p->p2) want = (size_t)p->p2;
    r = read(p->fd, (char *)buf + off, want);
    if (r > 0) { off += (size_t)r; idle = 0; if (p->kind == K_SLOW && !final_phase) vsleep_ms((unsigned)p->p1); continue; }
    if (r == 0) { p->eof = 1; return 0; }
    if (errno == EINTR) continue;
    if (errno != EAGAIN && errno != EWOULDBLOCK) { p->eof = 1; return 0; }
    if (server_down && ++idle > 3) { p->eof = 1; return 0; }
    p_wait(p->fd, 0, 500);
  }
  return 1;
}
static int p_write(peer *p, const void *buf, size_t n) {
  size_t off = 0;
  while (off < n) {
    ssize_t r = write(p->fd, (const char *)buf + off, n - off);
    if (r > 0) { off += (size_t)r; continue; }
    if (r < 0 && errno == EINTR) continue;
    if (r < 0 && (errno == EAGAIN || errno == EWOULDBLOCK)) { p_wait(p->fd, 1, 500); if (server_down) return 0; continue; }
    p->eof = 1; return 0;
  }
  return 1;
}
static void put16(unsigned char *b, int v) { b[0] = (unsigned char)(v >> 8); b[1] = (unsigned char)v; }
static void put32(unsigned char *b, uint32_t v) { b[0] = v >> 24; b[1] = v >> 16; b[2] = v >> 8; b[3] = v; }
static int get16(const unsigned char *b) { return (b[0] << 8) | b[1]; }
static uint32_t get32(const unsigned char *b) { return ((uint32_t)b[0] << 24) | (b[1] << 16) | (b[2] << 8) | b[3]; }
static int p_send_fur(peer *p, int incr) {
  unsigned char m[10]; m[0] = 3; m[1] = (unsigned char)incr; put16(m + 2, 0); put16(m + 4, 0); put16(m + 6, p->w); put16(m + 8, p->h);
  return p_write(p, m, 10);
}
static void p_check_converged(peer *p) {
  if (final_phase && p->w == fbw && p->h == fbh && server_fb &&
      memcmp(p->fb, server_fb, (size_t)fbw * fbh * 4) == 0) p->converged = 1;
  else if (final_phase) p->converged = 0;
}
/* read one server message; returns 1 ok, 0 connection over, 2 = abrupt close performed */
static int p_message(peer *p) {
  unsigned char t, h[16];
  if (!p_read(p, &t, 1)) return 0;
  if (t == 0) {
    int nrects, i;
    if (!p_read(p, h, 3)) return 0;
    nrects = get16(h + 1);
    for (i = 0; i < nrects; i++) {
      int x, y, w, hh; int32_t enc;
      if (!p_read(p, h, 12)) return 0;
      x = get16(h); y = get16(h + 2); w = get16(h + 4); hh = get16(h + 6); enc = (int32_t)get32(h + 8);
      if (p->kind == K_ABRUPT && p->updates >= p->p1) { close(p->fd); p->closed_by_peer = 1; return 2; }
      if (enc == 0) {
        int row;
        if (x + w > p->w || y + hh > p->h) { dump_trace(); printf("res proto peer %d raw rect outside fb\n", p->idx); return 0; }
        for (row = 0; row < hh; row++) if (!p_read(p, p->fb + (size_t)(y + row) * p->w + x, (size_t)w * 4)) return 0;
      } else if (enc == 1) {
        int sx, sy, row; uint32_t *tmp;
        if (!p_read(p, h, 4)) return 0;
        sx = get16(h); sy = get16(h + 2);
        if (x + w > p->w || y + hh > p->h || sx + w > p->w || sy + hh > p->h) { dump_trace(); printf("res proto peer %d copyrect outside fb\n", p->idx); return 0; }
        tmp = malloc((size_t)w * hh * 4 + 4);
        for (row = 0; row < hh; row++) memcpy(tmp + (size_t)row * w, p->fb + (size_t)(sy + row) * p->w + sx, (size_t)w * 4);
        for (row = 0; row < hh; row++) memcpy(p->fb + (size_t)(y + row) * p->w + x, tmp + (size_t)row * w, (size_t)w * 4);
        free(tmp);
      } else if (enc == -239) {           /* rich cursor */
        size_t n = (size_t)w * hh * 4 + (size_t)((w + 7) / 8) * hh; char *tmp = malloc(n + 1);
        int ok = p_read(p, tmp, n); free(tmp); if (!ok) return 0;
      } else if (enc == -240) {           /* x cursor */
        size_t n = (w * hh ? 6 : 0) + 2 * (size_t)((w + 7) / 8) * hh; char *tmp = malloc(n + 1);
        int ok = p_read(p, tmp, n); free(tmp); if (!ok) return 0;
      } else if (enc == -223) {           /* new fb size */
        free(p->fb); p->w = w; p->h = hh; p->fb = calloc((size_t)w * hh + 1, 4);
      } else if (enc == -224) {           /* last rect */
        break;
      } else { dump_trace(); printf("res proto peer %d unknown encoding %d\n", p->idx, (int)enc); return 0; }
    }
    p->updates++;
    p_check_converged(p);
    return 1;
  } else if (t == 2) { p->bells++; return 1; }
  else if (t == 3) {
    uint32_t len; char *tmp; int ok;
    if (!p_read(p, h, 7)) return 0;
    len = get32(h + 3);
    if (p->extclip && (len & 0x80000000u)) {
      /* extended clipboard message: Caps / Notify / Provide */
      len = (uint32_t)(-(int32_t)len);
      if (len >= 4 && len <= (1u << 22)) {
        tmp = malloc(len + 1); ok = p_read(p, tmp, len);
        if (ok && p->extreq && (((unsigned char)tmp[0]) & 0x08)) {   /* Notify: ask for the text */
          unsigned char m[12]; m[0] = 6; m[1] = m[2] = m[3] = 0; put32(m + 4, (uint32_t)-4); put32(m + 8, 0x02000001u);
          ok = p_write(p, m, 12);
        }
        free(tmp); if (!ok) return 0;
        p->cuts++; return 1;
      }
    }
    if (len > (1u << 24)) { dump_trace(); printf("res proto peer %d cut text length %u\n", p->idx, len); return 0; }
    tmp = malloc(len + 1); ok = p_read(p, tmp, len); free(tmp);
    if (!ok) return 0;
    p->cuts++; return 1;
  } else if (t == 1) {
    int n; char *tmp; int ok;
    if (!p_read(p, h, 5)) return 0;
    n = get16(h + 3); tmp = malloc((size_t)n * 6 + 1); ok = p_read(p, tmp, (size_t)n * 6); free(tmp);
    return ok;
  }
  dump_trace(); printf("res proto peer %d unknown message type %d\n", p->idx, t);
  return 0;
}
static int p_pending(peer *p) { int n = 0; if (ioctl(p->fd, FIONREAD, &n) < 0) return 0; return n; }

static void *peer_main(void *arg) {
  peer *p = (peer *)arg; unsigned char b[256]; int stage = 0;
  if (listen_mode) {
    struct sockaddr_un sa; int fd = socket(AF_UNIX, SOCK_STREAM, 0);
    memset(&sa, 0, sizeof sa); sa.sun_family = AF_UNIX;
    { const char *nm = (p->second && listen2_fd >= 0) ? listen_name2 : listen_name;
    memcpy(sa.sun_path, nm, sizeof listen_name);
    p->connect_seq = connect_counter; pending_accept[connect_counter++] = p;
    if (connect(fd, (struct sockaddr *)&sa, sizeof(sa.sun_family) + 1 + strlen(nm + 1)) >= 0) goto connected; }
    {
      r_close(fd); p->finished = 1; p->eof = 1; pending_accept[p->connect_seq] = NULL;
      /* refused: the listening socket is already gone (connect raced with shutdown) */
      connect_counter--;   /* nothing queued */
      return NULL;
    }
  connected:
    fcntl(fd, F_SETFL, fcntl(fd, F_GETFL) | O_NONBLOCK);
    p->fd = fd;
  }
  p->connected = 1;
  /* stage 1: version */
  if (p->kind == K_ABANDON && p->p1 == 0) goto abandon;
  if (!p_write(p, "RFB 003.008\n", 12)) goto out;
  if (!p_read(p, b, 12)) goto out;
  stage = 1;
  if (p->kind == K_ABANDON && p->p1 == 1) goto abandon;
  if (!p_read(p, b, 1)) goto out;
  if (b[0] == 0 || b[0] > 16) goto out;
  if (!p_read(p, b + 1, b[0])) goto out;
  b[0] = 1; if (!p_write(p, b, 1)) goto out;
  if (!p_read(p, b, 4)) goto out;
  stage = 2;
  if (p->kind == K_ABANDON && p->p1 == 2) goto abandon;
  b[0] = p->nonshared ? 0 : 1; if (!p_write(p, b, 1)) goto out;     /* shared flag */
  if (!p_read(p, b, 24)) goto out;
  p->w = get16(b); p->h = get16(b + 2);
  { uint32_t nl = get32(b + 20); char *tmp; int ok; if (nl > 4096) goto out; tmp = malloc(nl + 1); ok = p_read(p, tmp, nl); free(tmp); if (!ok) goto out; }
  p->fb = calloc((size_t)p->w * p->h + 1, 4);
  p->handshook = 1;
  stage = 3;
  if (p->kind == K_ABANDON) goto abandon;
  /* SetEncodings */
  { int32_t encs[8]; int n = 0, i;
    encs[n++] = 1; encs[n++] = 0; if (!p->soft) encs[n++] = -239; if (!p->nonewfb) encs[n++] = -223;
    if (p->extclip) encs[n++] = (int32_t)0xC0A1E5CE;
    b[0] = 2; b[1] = 0; put16(b + 2, n);
    for (i = 0; i < n; i++) put32(b + 4 + 4 * i, (uint32_t)encs[i]);
    if (!p_write(p, b, 4 + 4 * (size_t)n)) goto out; }
  if (p->extclip) {
    /* ExtendedClipboard Caps: text only, every action, maximum unsolicited size 0: the server has to
       announce (Notify) a new clipboard text instead of sending it */
    unsigned char m[16]; m[0] = 6; m[1] = m[2] = m[3] = 0; put32(m + 4, (uint32_t)-8);
    put32(m + 8, 0x1F000001u); put32(m + 12, 0);
    if (!p_write(p, m, 16)) goto out;
  }
  if (!p_send_fur(p, 0)) goto out;
  if (p->kind == K_STALL) {
    /* a reader that stops reading: the server's writer runs into its time-out (or not, when the
       stall is shorter than one retry step) */
    vsleep_ms((unsigned)p->p1);
    if (p->p2 == 0) { close(p->fd); p->closed_by_peer = 1; goto out; }
  }
  for (;;) {
    int r = p_message(p);
    if (r != 1) goto out;
    if (p->kind == K_LEAVE && p->updates >= p->p1) { close(p->fd); p->closed_by_peer = 1; goto out; }
    if (p_pending(p) == 0) { if (!p_send_fur(p, 1)) goto out; }
  }
abandon:
  if (p->p2 == 1) { close(p->fd); p->closed_by_peer = 1; }
  else { /* keep the connection open, silent, until the server closes it */
    while (!p->eof) { ssize_t r = read(p->fd, b, sizeof b); if (r == 0) break; if (r < 0 && errno != EAGAIN && errno != EINTR) break;
      if (r < 0) { if (server_down) break; p_wait(p->fd, 0, 1000); } }
  }
out:
  (void)stage;
  if (!p->closed_by_peer) { close(p->fd); }
  p->finished = 1;
  return NULL;
}

/* ------------------------------------------------------------------------------------------ */
/* hooks                                                                                       */
static void gone_hook(rfbClientPtr cl);
static clrec *register_client(rfbClientPtr cl) {
  clrec *c; int i;
  if (nclients >= MAXCL) die("too many clients");
  c = &clients[nclients]; memset(c, 0, sizeof *c);
  c->cl = cl; c->cid = nclients; c->live = 1; c->sock = cl->sock; c->pipe_w = -1; c->obs_st = 'h'; c->obs_sock = 1; nclients++;
  for (i = 0; i < nclients - 1; i++) if (clients[i].cl == cl) clients[i].live = 0;   /* same address: the old one is dead */
  ev(E_ALLOC, NULL, c->cid, NULL);
  return c;
}
/* rfbNewTCPOrUDPClient initialises outputMutex first, after cl->screen has been set: the record
   becomes known to the harness (client id, lock classes) from that moment on, also when its
   creation fails before the application's newClientHook is reached */
static void early_register(void *addr) {
  rfbClientPtr cl; int i;
  if (!scr || !self || (self->role != 'A' && self->role != 'L')) return;
  for (i = nclients - 1; i >= 0; i--) if (clients[i].live && (char *)addr >= (char *)clients[i].cl && (char *)addr < (char *)clients[i].cl + sizeof(rfbClientRec)) return;
  if (!in_newclient && self->role != 'L') return;
  cl = (rfbClientPtr)((char *)addr - offsetof(rfbClientRec, outputMutex));
  if (cl->screen != scr) return;
  register_client(cl);
  cl->clientGoneHook = gone_hook;
}
static void gone_hook(rfbClientPtr cl) {
  clrec *c = client_of(cl);
  if (!c) { int i; for (i = nclients - 1; i >= 0 && !c; i--) if (clients[i].cl == cl) c = &clients[i]; }
  if (!c) { dump_trace(); printf("res gone-unknown-client\n"); return; }
  c->gone++;
  ev(E_GONE, NULL, c->cid, NULL);
  c->live = 0;      /* the record is freed soon after: never dereference it again */
}
static enum rfbNewClientAction new_client_hook(rfbClientPtr cl) {
  clrec *c = client_of(cl);
  if (!c) c = register_client(cl);
  c->hooked = 1;
  cl->clientGoneHook = gone_hook;
  if (listen_mode && self && self->role == 'L') {
    if (accept_counter < connect_counter && pending_accept[accept_counter]) { c->p = pending_accept[accept_counter]; c->p->cid = c->cid; }
    accept_counter++;
  }
  classify_all();
  ev(E_NEWCL, NULL, c->cid, NULL);
  /* cfg sharing bit 16: the application puts every new client on hold and never starts it */
  return (sharing & 16) ? RFB_CLIENT_ON_HOLD : RFB_CLIENT_ACCEPT;
}

/* ------------------------------------------------------------------------------------------ */
static void start_peer(peer *p) {
  if (p->started) return;
  p->started = 1; p->cid = -1;
  if (!listen_mode) {
    int sv[2]; rfbClientPtr cl; int before = nclients;
    if (socketpair(AF_UNIX, SOCK_STREAM, 0, sv) < 0) die("socketpair");
    fcntl(sv[1], F_SETFL, fcntl(sv[1], F_GETFL) | O_NONBLOCK);
    if (sndbuf > 0) setsockopt(sv[0], SOL_SOCKET, SO_SNDBUF, &sndbuf, sizeof sndbuf);
    p->fd = sv[1];
    /* the version string is sent by the peer thread; the server's 100 ms WebSocket probe runs on
       virtual time */
    next_role = 'P'; next_cid = p->idx;
    pthread_create(&p->th, NULL, peer_main, p);
    ev(E_CALL, NULL, 0, "newclient");
    in_newclient = 1;
    cl = rfbNewClient(scr, sv[0]);
    in_newclient = 0;
    if (cl) {
      if (nclients > before) { clients[nclients - 1].p = p; p->cid = clients[nclients - 1].cid; }
      if (!(sharing & 16)) rfbStartOnHoldClient(cl);
    }
    ev(E_RET, NULL, 0, "newclient");
  } else {
    next_role = 'P'; next_cid = p->idx;
    pthread_create(&p->th, NULL, peer_main, p);
  }
}

static void fill_rect(int x, int y, int w, int h, uint32_t v) {
  int i, j;
  if (x < 0) x = 0; if (y < 0) y = 0; if (x + w > fbw) w = fbw - x; if (y + h > fbh) h = fbh - y;
  for (j = 0; j < h; j++) for (i = 0; i < w; i++) server_fb[(size_t)(y + j) * fbw + x + i] = v + (uint32_t)(i * 7 + j * 13);
}
static int count_fds(void) {
  int n = 0, fd; for (fd = 0; fd < 1024; fd++) if (fcntl(fd, F_GETFD) != -1) n++;
  return n;
}
static int fds_at_start = -1;
static long count_maps(void) {
  FILE *f = fopen("/proc/self/maps", "r"); long n = 0; int c;
  if (!f) return -1;
  while ((c = fgetc(f)) != EOF) if (c == '\n') n++;
  fclose(f); return n;
}
static long vm_kb(const char *key) {
  FILE *f = fopen("/proc/self/status", "r"); char line[256]; long v = -1;
  if (!f) return -1;
  while (fgets(line, sizeof line, f)) if (!strncmp(line, key, strlen(key))) { v = atol(line + strlen(key) + 1); break; }
  fclose(f); return v;
}
static int lib_threads_unjoined(int *alive) {
  int i, n = 0, a = 0;
  for (i = 0; i < nthr; i++) if (thr[i].lib && thr[i].role != 'A') {
    if (thr[i].state != T_EXITED) a++;
    else if (!thr[i].joined && !thr[i].detached) n++;
  }
  if (alive) *alive = a;
  return n;
}


/* exclusion predicates of known findings (see docs/C13.md); each is a bounded virtual-time wait */
static void guard_handshakes(void) {
  int k, guard = 0, busy = 1;
  if (!(guards & 1)) return;
  while (busy && guard++ < 3000) {
    busy = 0;
    for (k = 0; k < MAXPEER; k++) { peer *p = &peers[k];
      if (p->used && p->started && !p->finished && !p->handshook && p->kind != K_ABANDON) busy = 1; }
    /* server side: every registered live client is past the handshake or is an abandoned one */
    for (k = 0; k < nclients && !busy; k++) if (clients[k].live && clients[k].cl->state != RFB_NORMAL && clients[k].cl->state != RFB_SHUTDOWN) {
      peer *p = clients[k].p; if (!p || p->kind != K_ABANDON) busy = 1; }
    if (busy) vsleep_ms(2);
  }
}
static int abandoned_in_handshake(void) {
  int k; for (k = 0; k < nclients; k++) if (clients[k].live && clients[k].cl->state != RFB_NORMAL && clients[k].cl->state != RFB_SHUTDOWN) return 1;
  return 0;
}
static void guard_stray_threads(void) {
  int i, guard = 0, busy = 1;
  if (!(guards & 2)) return;
  while (busy && guard++ < 20000) {
    busy = 0;
    for (i = 0; i < nthr; i++) if (thr[i].lib && (thr[i].role == 'I' || thr[i].role == 'O') && thr[i].state != T_EXITED) busy = 1;
    if (busy) vsleep_ms(5);
  }
}
static int outputs_idle(void) {
  int i;
  for (i = 0; i < nthr; i++) if (thr[i].lib && thr[i].role == 'O' && thr[i].state != T_EXITED) {
    if (thr[i].state == T_COND) continue;
    return 0;
  }
  return 1;
}

int main(void) {
  char *line, *tok[16];
  int cfg_done = 0, did_shutdown = 0, did_cleanup = 0, k, lineno = 0;
  int a_defer = 2, a_maxwait = 300; uint64_t seed = 1;
  long maps0 = -1, vm0 = -1;
  resolve();
  signal(SIGPIPE, SIG_IGN);
  signal(SIGALRM, on_alarm);
  { const char *a = getenv("C13_ALARM_S"); alarm(a && atoi(a) > 0 ? (unsigned)atoi(a) : 100); }
  __sanitizer_set_death_callback(on_asan_death);
  setvbuf(stdout, NULL, _IOFBF, 1 << 20);
  while ((line = vh_readline())) {
    int n = vh_split(line, tok, 16);
    lineno++;
    if (n == 0 || tok[0][0] == '#') continue;
    if (!strcmp(tok[0], "cfg") && n >= 11 && !cfg_done) {
      fbw = atoi(tok[1]); fbh = atoi(tok[2]); a_defer = atoi(tok[3]); listen_mode = atoi(tok[4]);
      a_maxwait = atoi(tok[5]); seed = strtoull(tok[6], NULL, 10); sched_mode = atoi(tok[7]);
      pct_d = atoi(tok[8]); step_budget = strtoull(tok[9], NULL, 10); stickiness = atoi(tok[10]);
      if (pct_d > 16) pct_d = 16;
      guards = n >= 13 ? atoi(tok[12]) : 0;
      sndbuf = n >= 14 ? atoi(tok[13]) : 0;
      sharing = n >= 15 ? atoi(tok[14]) : 0;
      srng = seed * 0x9E3779B97F4A7C15ull + 12345;
      for (k = 0; k < pct_d; k++) pct_cp[k] = 1 + srand64() % (n >= 12 ? strtoull(tok[11], NULL, 10) : 3000);
      fds_at_start = count_fds();
      /* scheduler on: the main thread is the application thread */
      self = new_thread('A', -1); self->lib = 0; self->started = 1;
      sched_on = 1;
      scr = vh_screen(fbw, fbh, 4);
      if (!scr) die("no screen");
      server_fb = (uint32_t *)scr->frameBuffer;
      scr->deferUpdateTime = a_defer; scr->maxClientWait = a_maxwait;
      scr->newClientHook = new_client_hook;
      if (sharing & 1) scr->dontDisconnect = TRUE;
      if (sharing & 2) scr->neverShared = TRUE;
      if (sharing & 4) scr->alwaysShared = TRUE;
      if (sharing & 8) scr->setXCutTextUTF8 = on_cut_utf8;
      /* identify the static client-list mutex behaviourally: it is the mutex locked by an iterator
         step on the empty list */
      { rfbClientIteratorPtr it = rfbGetClientIterator(scr); size_t before = nev, i;
        rfbClientIteratorNext(it); rfbReleaseClientIterator(it);
        for (i = before; i < nev; i++) if (evs[i].kind == E_LOCK) { int j; for (j = 0; j < nobj; j++) if (objs[j].serial == evs[i].serial) list_mutex_addr = objs[j].addr; break; }
        nev = before;
        if (!list_mutex_addr) die("client list mutex not identified"); }
      classify_all();
      if (listen_mode) {
        struct sockaddr_un sa; int fd = socket(AF_UNIX, SOCK_STREAM, 0);
        memset(&sa, 0, sizeof sa); sa.sun_family = AF_UNIX;
        snprintf(listen_name + 1, sizeof listen_name - 1, "verif-c13-%d-%llu", (int)getpid(), (unsigned long long)seed);
        memcpy(sa.sun_path, listen_name, sizeof listen_name);
        if (bind(fd, (struct sockaddr *)&sa, sizeof(sa.sun_family) + 1 + strlen(listen_name + 1)) < 0 || listen(fd, 64) < 0) die("listen");
        fcntl(fd, F_SETFL, fcntl(fd, F_GETFL) | O_NONBLOCK);
        listen_fd = fd;
        scr->listenSock = fd; FD_SET(fd, &scr->allFds); if (fd > scr->maxFd) scr->maxFd = fd;
        if (listen_mode == 2) {
          /* a second listening socket in the place of the IPv6 one (listenerRun only select()s and accept()s on it) */
          struct sockaddr_un sb; int fd2 = socket(AF_UNIX, SOCK_STREAM, 0);
          memset(&sb, 0, sizeof sb); sb.sun_family = AF_UNIX;
          snprintf(listen_name2 + 1, sizeof listen_name2 - 1, "verif-c13b-%d-%llu", (int)getpid(), (unsigned long long)seed);
          memcpy(sb.sun_path, listen_name2, sizeof listen_name2);
          if (bind(fd2, (struct sockaddr *)&sb, sizeof(sb.sun_family) + 1 + strlen(listen_name2 + 1)) < 0 || listen(fd2, 64) < 0) die("listen2");
          fcntl(fd2, F_SETFL, fcntl(fd2, F_GETFL) | O_NONBLOCK);
          listen2_fd = fd2; scr->listen6Sock = fd2; FD_SET(fd2, &scr->allFds); if (fd2 > scr->maxFd) scr->maxFd = fd2;
        }
      }
      ev(E_CALL, NULL, 0, "runloop");
      rfbRunEventLoop(scr, 40000, TRUE);
      ev(E_RET, NULL, 0, "runloop");
      cfg_done = 1;
      continue;
    }
    if (!cfg_done) die("first op must be cfg");
    if (!strcmp(tok[0], "peer") && n >= 6) {
      peer *p; k = atoi(tok[1]); if (k < 0 || k >= MAXPEER) die("peer index");
      p = &peers[k]; memset(p, 0, sizeof *p); p->idx = k; p->used = 1; p->cid = -1; p->fd = -1;
      p->kind = !strcmp(tok[2], "stay") ? K_STAY : !strcmp(tok[2], "leave") ? K_LEAVE : !strcmp(tok[2], "abrupt") ? K_ABRUPT : !strcmp(tok[2], "slow") ? K_SLOW : !strcmp(tok[2], "stall") ? K_STALL : K_ABANDON;
      p->p1 = atoi(tok[3]); p->p2 = atoi(tok[4]); p->soft = atoi(tok[5]) & 1; p->nonewfb = (atoi(tok[5]) >> 1) & 1; p->nonshared = (atoi(tok[5]) >> 2) & 1; p->extclip = (atoi(tok[5]) >> 3) & 1; p->extreq = (atoi(tok[5]) >> 4) & 1; p->second = (atoi(tok[5]) >> 5) & 1;
      if (p->kind == K_SLOW && p->p2 < 1) p->p2 = 1;
    } else if (!strcmp(tok[0], "connect") && n == 2) {
      k = atoi(tok[1]); if (k < 0 || k >= MAXPEER || !peers[k].used) die("connect: no such peer");
      if (did_shutdown) continue;
      start_peer(&peers[k]);
    } else if (!strcmp(tok[0], "sleep") && n == 2) {
      vsleep_ms((unsigned)atoi(tok[1]));
    } else if (!strcmp(tok[0], "mark") && n == 6 && !did_cleanup) {
      fill_rect(atoi(tok[1]), atoi(tok[2]), atoi(tok[3]), atoi(tok[4]), (uint32_t)strtoul(tok[5], NULL, 10));
      ev(E_CALL, NULL, 0, "mark");
      rfbMarkRectAsModified(scr, atoi(tok[1]), atoi(tok[2]), atoi(tok[1]) + atoi(tok[3]), atoi(tok[2]) + atoi(tok[4]));
      ev(E_RET, NULL, 0, "mark");
    } else if (!strcmp(tok[0], "copy") && n == 7 && !did_cleanup) {
      int x = atoi(tok[1]), y = atoi(tok[2]), w = atoi(tok[3]), h = atoi(tok[4]), dx = atoi(tok[5]), dy = atoi(tok[6]);
      /* destination rectangle [x,x+w)x[y,y+h) must have its source inside the framebuffer */
      if (x < 0 || y < 0 || w <= 0 || h <= 0 || x + w > fbw || y + h > fbh || x - dx < 0 || y - dy < 0 || x - dx + w > fbw || y - dy + h > fbh) continue;
      if (guards & 4) { int guard = 0; while (!outputs_idle() && guard++ < 2000) vsleep_ms(1); if (!outputs_idle()) continue; }
      ev(E_CALL, NULL, lineno, "copy");
      rfbDoCopyRect(scr, x, y, x + w, y + h, dx, dy);
      ev(E_RET, NULL, 0, "copy");
    } else if (!strcmp(tok[0], "bell") && !did_cleanup) {
      guard_handshakes(); if ((guards & 1) && abandoned_in_handshake()) continue;
      ev(E_CALL, NULL, 0, "bell"); rfbSendBell(scr); ev(E_RET, NULL, 0, "bell");
    } else if (!strcmp(tok[0], "cut") && n == 2 && !did_cleanup) {
      int len = atoi(tok[1]); char *s = malloc((size_t)len + 1); memset(s, 'x', (size_t)len); s[len] = 0;
      guard_handshakes(); if ((guards & 1) && abandoned_in_handshake()) { free(s); continue; }
      ev(E_CALL, NULL, 0, "cut"); rfbSendServerCutText(scr, s, len); ev(E_RET, NULL, 0, "cut");
      free(s);
    } else if (!strcmp(tok[0], "cututf8") && n == 3 && !did_cleanup) {
      int len = atoi(tok[1]); char *s = malloc((size_t)len + 1); memset(s, 'y', (size_t)len); s[len] = 0;
      guard_handshakes(); if ((guards & 1) && abandoned_in_handshake()) { free(s); continue; }
      ev(E_CALL, NULL, atoi(tok[2]), "cututf8");
      rfbSendServerCutTextUTF8(scr, s, len, atoi(tok[2]) ? s : NULL, atoi(tok[2]) ? len : 0);
      ev(E_RET, NULL, 0, "cututf8");
      free(s);
    } else if (!strcmp(tok[0], "iter") && !did_cleanup) {
      rfbClientIteratorPtr it; rfbClientPtr cl; int cnt = 0;
      ev(E_CALL, NULL, 0, "iter");
      it = rfbGetClientIterator(scr);
      while ((cl = rfbClientIteratorNext(it))) { cnt += cl->sock >= 0; cnt += cl->state == RFB_NORMAL; }
      rfbReleaseClientIterator(it);
      ev(E_RET, NULL, 0, "iter");
    } else if (!strcmp(tok[0], "drop") && n == 2) {
      k = atoi(tok[1]); if (k < 0 || k >= MAXPEER || !peers[k].used) die("drop: no such peer");
      if (peers[k].started && peers[k].fd >= 0 && !peers[k].finished) shutdown(peers[k].fd, SHUT_RDWR);
    } else if (!strcmp(tok[0], "halfclose") && n == 2) {
      k = atoi(tok[1]); if (k < 0 || k >= MAXPEER || !peers[k].used) die("halfclose: no such peer");
      if (peers[k].started && peers[k].fd >= 0 && !peers[k].finished) shutdown(peers[k].fd, SHUT_WR);
    } else if ((!strcmp(tok[0], "suspend") || !strcmp(tok[0], "resume")) && n == 3) {
      int i, on = tok[0][0] == 's';
      k = atoi(tok[2]); if (k < 0 || k >= MAXPEER || !peers[k].used) die("suspend: no such peer");
      for (i = 0; i < nthr; i++) if (thr[i].lib && thr[i].role == tok[1][0] && peers[k].cid >= 0 && thr[i].cid == peers[k].cid) thr[i].suspended = on;
    } else if (!strcmp(tok[0], "iterhold") && n >= 3 && !did_cleanup) {
      rfbClientIteratorPtr it; rfbClientPtr cl = NULL; int hcnt = atoi(tok[1]), wait = atoi(tok[2]), i, cnt = 0;
      ev(E_CALL, NULL, 0, "iter");
      it = rfbGetClientIterator(scr);
      for (i = 0; i <= hcnt; i++) { cl = rfbClientIteratorNext(it); if (!cl) break; cnt += cl->sock >= 0; cnt += cl->state == RFB_NORMAL; }
      if (cl) {
        for (i = 3; i < n; i++) {
          k = atoi(tok[i]); if (k < 0 || k >= MAXPEER || !peers[k].used) die("iterhold: no such peer");
          if (peers[k].started && peers[k].fd >= 0 && !peers[k].finished) shutdown(peers[k].fd, SHUT_RDWR);
          vsleep_ms((unsigned)wait);
        }
        /* the client the iterator rests on is referenced: it must still be a valid record */
        cnt += cl->sock >= 0; cnt += cl->state == RFB_NORMAL;
        while ((cl = rfbClientIteratorNext(it))) { cnt += cl->sock >= 0; cnt += cl->state == RFB_NORMAL; }
      }
      rfbReleaseClientIterator(it);
      ev(E_RET, NULL, 0, "iter");
    } else if (!strcmp(tok[0], "iterwrite") && n == 2 && !did_cleanup) {
      /* an application that walks the clients itself and writes to one of them under its sendMutex
         (what rfbSendBell does), reaching the write only after the peer has gone: the reference held by
         the iterator keeps the record alive, rfbWriteExact sees cl->sock == -1 */
      rfbClientIteratorPtr it; rfbClientPtr cl; int guard = 0; char x = 2;
      ev(E_CALL, NULL, 0, "iterwrite");
      it = rfbGetClientIterator(scr);
      cl = rfbClientIteratorNext(it);
      if (cl) {
        while (cl->sock >= 0 && guard++ < atoi(tok[1])) vsleep_ms(1);
        LOCK(cl->sendMutex);
        if (rfbWriteExact(cl, &x, 1) < 0) rfbCloseClient(cl);
        UNLOCK(cl->sendMutex);
      }
      rfbReleaseClientIterator(it);
      ev(E_RET, NULL, 0, "iterwrite");
    } else if (!strcmp(tok[0], "newfb") && n == 4 && !did_cleanup) {
      int w = atoi(tok[1]), h = atoi(tok[2]); uint32_t *nf = calloc((size_t)w * h + 1, 4), *old = server_fb; int i;
      for (i = 0; i < w * h; i++) nf[i] = (uint32_t)strtoul(tok[3], NULL, 10) + (uint32_t)i * 3;
      ev(E_CALL, NULL, 0, "newfb");
      rfbNewFramebuffer(scr, (char *)nf, w, h, 8, 3, 4);
      ev(E_RET, NULL, 0, "newfb");
      server_fb = nf; fbw = w; fbh = h;
      free(old);
    } else if (!strcmp(tok[0], "cycle") && n == 2 && !did_shutdown) {
      /* n connect / handshake / one update / disconnect cycles, sequentially; resource counters
         before and after */
      int cyc = atoi(tok[1]), i, alive0, unj0 = lib_threads_unjoined(&alive0), alive1, unj1;
      maps0 = count_maps(); vm0 = vm_kb("VmSize:");
      for (i = 0; i < cyc; i++) {
        peer *p = &peers[MAXPEER - 1]; int guard = 0;
        memset(p, 0, sizeof *p); p->idx = MAXPEER - 1; p->used = 1; p->kind = K_LEAVE; p->p1 = 1; p->fd = -1;
        start_peer(p);
        while (!p->finished && guard++ < 100000) vsleep_ms(5);
        pthread_join(p->th, NULL); p->th_joined = 1;
        /* let the server side notice the disconnect */
        guard = 0;
        while (p->cid >= 0 && clients[p->cid].gone == 0 && guard++ < 4000) vsleep_ms(5);
        /* ... and its input thread has finished tearing the client down */
        guard = 0;
        while (p->cid >= 0 && guard++ < 4000) {
          int j, busy = 0;
          for (j = 0; j < nthr; j++) if (thr[j].lib && (thr[j].role == 'I' || thr[j].role == 'O') && thr[j].cid == p->cid && thr[j].state != T_EXITED) busy = 1;
          if (!busy) break;
          vsleep_ms(5);
        }
        free(p->fb); p->fb = NULL;
      }
      unj1 = lib_threads_unjoined(&alive1);
      dump_trace();
      printf("res cycle n=%d unjoined_before=%d unjoined_after=%d alive_before=%d alive_after=%d maps_before=%ld maps_after=%ld vmsize_kb_before=%ld vmsize_kb_after=%ld\n",
             cyc, unj0, unj1, alive0, alive1, maps0, count_maps(), vm0, vm_kb("VmSize:"));
      if (alive1 > alive0) dump_threads();
    } else if (!strcmp(tok[0], "settle") && n == 2 && !did_shutdown) {
      /* final phase: wait (virtual time) until every peer that is still connected shows the final
         framebuffer, or the budget is used up */
      int budget = atoi(tok[1]), waited = 0, all;
      final_phase = 1;
      for (k = 0; k < MAXPEER; k++) if (peers[k].used && peers[k].started) peers[k].converged = 0;
      for (;;) {
        all = 1;
        for (k = 0; k < MAXPEER; k++) {
          peer *p = &peers[k];
          if (p->used && p->started && p->connected && !p->finished && !p->handshook && p->kind != K_ABANDON) { all = 0; continue; }   /* still waiting to be served */
          if (!p->used || !p->started || p->finished || p->kind == K_ABANDON || !p->handshook) continue;
          if (p->kind == K_ABRUPT || p->kind == K_LEAVE || p->kind == K_STALL) continue;   /* will leave on their own / may have been dropped by the server */
          if (p->soft) continue;                                      /* picture contains the drawn cursor by design */
          if (!p->converged) all = 0;
        }
        if (all || waited >= budget) break;
        vsleep_ms(10); waited += 10;
        /* a fresh look: memory may have changed only through the server */
        for (k = 0; k < MAXPEER; k++) if (peers[k].used && peers[k].started && !peers[k].finished && peers[k].fb) p_check_converged(&peers[k]);
      }
      for (k = 0; k < MAXPEER; k++) if (peers[k].used && peers[k].started && peers[k].connected && !peers[k].finished &&
          !peers[k].handshook && peers[k].kind != K_ABANDON)
        printf("res unserved peer=%d connected but never greeted by the server (waited_ms=%d)\n", k, waited);
      for (k = 0; k < MAXPEER; k++) {
        peer *p = &peers[k];
        if (!p->used || !p->started || !p->handshook) continue;
        if (p->kind == K_ABANDON || p->kind == K_ABRUPT || p->kind == K_LEAVE || p->kind == K_STALL || p->soft) continue;
        printf("res pic peer=%d cid=%d %s updates=%d connected=%d waited_ms=%d\n", k, p->cid,
               p->finished ? "disconnected" : (p->converged ? "eq" : "differs"), p->updates, !p->finished, waited);
        if (!p->finished && !p->converged) {
          int x, y, nd = 0, fx = -1, fy = -1, lx = -1, ly = -1;
          if (p->w != fbw || p->h != fbh) printf("res picdiff peer=%d size %dx%d vs %dx%d\n", k, p->w, p->h, fbw, fbh);
          else { for (y = 0; y < fbh; y++) for (x = 0; x < fbw; x++) if (p->fb[(size_t)y * fbw + x] != server_fb[(size_t)y * fbw + x]) { if (!nd) { fx = x; fy = y; } lx = x; ly = y; nd++; }
            printf("res picdiff peer=%d ndiff=%d first=%d,%d last=%d,%d\n", k, nd, fx, fy, lx, ly); }
        }
      }
    } else if (!strcmp(tok[0], "shutdown") && !did_shutdown) {
      ev(E_CALL, NULL, 0, "shutdown");
      rfbShutdownServer(scr, TRUE);
      ev(E_RET, NULL, 0, "shutdown");
      did_shutdown = 1; server_down = 1;
    } else if (!strcmp(tok[0], "cleanup") && did_shutdown && !did_cleanup) {
      /* peers first see EOF and finish */
      int guard = 0, busy = 1;
      while (busy && guard++ < 20000) {
        busy = 0;
        for (k = 0; k < MAXPEER; k++) if (peers[k].used && peers[k].started && !peers[k].finished) busy = 1;
        if (busy) vsleep_ms(20);
      }
      for (k = 0; k < MAXPEER; k++) if (peers[k].used && peers[k].started) {
        if (!peers[k].finished) { dump_trace(); printf("res peer-stuck %d\n", k); }
        else if (!peers[k].th_joined) { pthread_join(peers[k].th, NULL); peers[k].th_joined = 1; }
      }
      guard_stray_threads();
      ev(E_CALL, NULL, 0, "cleanup");
      { char *fbm = scr->frameBuffer; rfbScreenCleanup(scr); free(fbm); }
      ev(E_RET, NULL, 0, "cleanup");
      scr = NULL; server_fb = NULL;
      did_cleanup = 1;
    } else die("bad op: %s", tok[0]);
  }
  /* end of script: results */
  sched_on = 0;
  dump_trace();
  { int alive, unj = lib_threads_unjoined(&alive), i;
    for (i = 0; i < nclients; i++) printf("res gone cid=%d count=%d hooked=%d\n", clients[i].cid, clients[i].gone, clients[i].hooked);
    printf("res threads lib_alive=%d lib_unjoined=%d total=%d\n", alive, unj, nthr);
    if (alive) dump_threads();
    for (i = 0; i < nobj; i++) if (objs[i].kind == 0 && objs[i].live && objs[i].owner) { char b[32], tb[32]; oname(objs[i].serial, b); printf("res held-at-end %s\n", b);
      /* a thread that has ended still owns the mutex: nobody can ever unlock it */
      if (objs[i].owner->state == T_EXITED) { tname(objs[i].owner->idx, tb); printf("res exit-holding %s %s\n", tb, b); } }
  }
  /* clean shutdown gives every descriptor back (sockets, listening sockets, notify pipes) */
  if (did_cleanup && fds_at_start >= 0) { int n = count_fds(); if (n > fds_at_start) printf("res fd-leak before=%d after=%d\n", fds_at_start, n); }
  printf("res stats steps=%llu vtime_us=%llu clients=%d shutdown=%d cleanup=%d\n", (unsigned long long)steps, (unsigned long long)vtime_us, nclients, did_shutdown, did_cleanup);
  for (k = 0; k < MAXPEER; k++) if (peers[k].used && peers[k].started) { free(peers[k].fb); peers[k].fb = NULL;
    printf("res peer %d cid=%d kind=%d updates=%d bells=%d cuts=%d handshook=%d finished=%d\n", k, peers[k].cid, peers[k].kind, peers[k].updates, peers[k].bells, peers[k].cuts, peers[k].handshook, peers[k].finished); }
  printf("res end ok\n");
  fflush(stdout);
  if (!did_cleanup) _exit(0);    /* threads may still be blocked; no leak check possible */
  return 0;
}
