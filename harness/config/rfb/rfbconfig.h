#ifndef _RFB_RFBCONFIG_H
/* #undef _RFB_RFBCONFIG_H */
 
/* rfb/rfbconfig.h. Generated automatically by cmake. */

/* Enable 24 bit per pixel in native framebuffer */
#define LIBVNCSERVER_ALLOW24BPP  1 

/* work around when write() returns ENOENT but does not mean it */
/* #undef LIBVNCSERVER_ENOENT_WORKAROUND */

/* Define to 1 if you have the <dirent.h> header file. */
#define LIBVNCSERVER_HAVE_DIRENT_H 1

/* Define to 1 if you have the <endian.h> header file. */
#define LIBVNCSERVER_HAVE_ENDIAN_H 1

/* Define to 1 if you have the <fcntl.h> header file. */
#define LIBVNCSERVER_HAVE_FCNTL_H  1 

/* Define to 1 if you have the `gettimeofday' function. */
#define LIBVNCSERVER_HAVE_GETTIMEOFDAY  1 

/* Define to 1 if you have the `ftime' function. */
#define LIBVNCSERVER_HAVE_FTIME  1 

/* Define to 1 if you have the `gethostbyname' function. */
#define LIBVNCSERVER_HAVE_GETHOSTBYNAME  1 

/* Define to 1 if you have the `gethostname' function. */
#define LIBVNCSERVER_HAVE_GETHOSTNAME  1 

/* Define to 1 if you have the `inet_ntoa' function. */
#define LIBVNCSERVER_HAVE_INET_NTOA  1 

/* Define to 1 if you have the `memmove' function. */
#define LIBVNCSERVER_HAVE_MEMMOVE  1 

/* Define to 1 if you have the `memset' function. */
#define LIBVNCSERVER_HAVE_MEMSET  1 

/* Define to 1 if you have the `mkfifo' function. */
#define LIBVNCSERVER_HAVE_MKFIFO  1 

/* Define to 1 if you have the `select' function. */
#define LIBVNCSERVER_HAVE_SELECT  1 

/* Define to 1 if you have the `socket' function. */
#define LIBVNCSERVER_HAVE_SOCKET  1 

/* Define to 1 if you have the `strchr' function. */
#define LIBVNCSERVER_HAVE_STRCHR  1 

/* Define to 1 if you have the `strcspn' function. */
#define LIBVNCSERVER_HAVE_STRCSPN  1 

/* Define to 1 if you have the `strdup' function. */
#define LIBVNCSERVER_HAVE_STRDUP  1 

/* Define to 1 if you have the `strerror' function. */
#define LIBVNCSERVER_HAVE_STRERROR  1 

/* Define to 1 if you have the `strstr' function. */
#define LIBVNCSERVER_HAVE_STRSTR  1 

/* Define to 1 if you have the `jpeg' library (-ljpeg). */
#define LIBVNCSERVER_HAVE_LIBJPEG  1 

/* Define if you have the `png' library (-lpng). */
#define LIBVNCSERVER_HAVE_LIBPNG  1

/* Define to 1 if you have the `pthread' library (-lpthread). */
#define LIBVNCSERVER_HAVE_LIBPTHREAD  1 

/* Define to 1 if you have win32 threads. */
/* #undef LIBVNCSERVER_HAVE_WIN32THREADS */

/* Define to 1 if you have the `z' library (-lz). */
#define LIBVNCSERVER_HAVE_LIBZ  1 

/* Define to 1 if you have the `lzo2' library (-llzo2). */
/* #undef LIBVNCSERVER_HAVE_LZO */

/* Define to 1 if you have the <netinet/in.h> header file. */
#define LIBVNCSERVER_HAVE_NETINET_IN_H  1 

/* Define to 1 if you have the <sys/endian.h> header file. */
/* #undef LIBVNCSERVER_HAVE_SYS_ENDIAN_H */

/* Define to 1 if you have the <sys/socket.h> header file. */
#define LIBVNCSERVER_HAVE_SYS_SOCKET_H  1 

/* Define to 1 if you have the <sys/stat.h> header file. */
#define LIBVNCSERVER_HAVE_SYS_STAT_H  1 

/* Define to 1 if you have the <sys/time.h> header file. */
#define LIBVNCSERVER_HAVE_SYS_TIME_H  1 

/* Define to 1 if you have the <sys/types.h> header file. */
#define LIBVNCSERVER_HAVE_SYS_TYPES_H  1 

/* Define to 1 if you have <sys/wait.h> that is POSIX.1 compatible. */
#define LIBVNCSERVER_HAVE_SYS_WAIT_H  1 

/* Define to 1 if you have <sys/uio.h> */
/* #undef LIBVNCSERVER_HAVE_SYS_UIO_H */

/* Define to 1 if you have <sys/resource.h> */
#define LIBVNCSERVER_HAVE_SYS_RESOURCE_H  1

/* Define to 1 if you have the <unistd.h> header file. */
#define LIBVNCSERVER_HAVE_UNISTD_H  1 

/* Define to 1 if you have the `vfork' function. */
#define LIBVNCSERVER_HAVE_VFORK  1 

/* Define to 1 if you have the <vfork.h> header file. */
/* #undef LIBVNCSERVER_HAVE_VFORK_H */

/* Define to 1 if you have the `vprintf' function. */
#define LIBVNCSERVER_HAVE_VPRINTF  1 

/* Define to 1 if `fork' works. */
/* #undef LIBVNCSERVER_HAVE_WORKING_FORK */

/* Define to 1 if `vfork' works. */
/* #undef LIBVNCSERVER_HAVE_WORKING_VFORK */

/* Define to 1 if `mmap' exists. */
#define LIBVNCSERVER_HAVE_MMAP  1 

/* Define to 1 if `fork' exists. */
#define LIBVNCSERVER_HAVE_FORK  1 

/* Define to 1 if you have the <ws2tcpip.h> header file. */
/* #undef LIBVNCSERVER_HAVE_WS2TCPIP_H */

/* Enable IPv6 support */
#define LIBVNCSERVER_IPv6  1 

/* Need a typedef for in_addr_t */
/* #undef LIBVNCSERVER_NEED_INADDR_T */

/* Define to the full name and version of this package. */
#define LIBVNCSERVER_PACKAGE_STRING  "LibVNCServer 0.9.15"

/* Define to the version of this package. */
#define LIBVNCSERVER_PACKAGE_VERSION  "0.9.15"
#define LIBVNCSERVER_VERSION "0.9.15"
#define LIBVNCSERVER_VERSION_MAJOR "0"
#define LIBVNCSERVER_VERSION_MINOR "9"
#define LIBVNCSERVER_VERSION_PATCHLEVEL "15"

/* Define to 1 if libgcrypt is present */
#define LIBVNCSERVER_HAVE_LIBGCRYPT 1

/* Define to 1 if GnuTLS is present */
#define LIBVNCSERVER_HAVE_GNUTLS 1

/* Define to 1 if OpenSSL is present */
#define LIBVNCSERVER_HAVE_LIBSSL 1

/* Define to 1 if Cyrus SASL is present */
#define LIBVNCSERVER_HAVE_SASL 1

/* Define to 1 to build with websockets */
#define LIBVNCSERVER_WITH_WEBSOCKETS 1

/* Define to 1 if your processor stores words with the most significant byte
   first (like Motorola and SPARC, unlike Intel and VAX). */
/* #undef LIBVNCSERVER_WORDS_BIGENDIAN */

/* Define to empty if `const' does not conform to ANSI C. */
/* #undef const */

/* Define to `__inline__' or `__inline' if that's what the C compiler
   calls it, or to nothing if 'inline' is not supported under any name.  */
/* #ifndef __cplusplus */
/* #undef inline */
/* #endif */

/* Define to `int' if <sys/types.h> does not define. */
#define HAVE_LIBVNCSERVER_PID_T 1
#ifndef HAVE_LIBVNCSERVER_PID_T
typedef int pid_t;
#endif

/* The type for size_t */
#define HAVE_LIBVNCSERVER_SIZE_T 1
#ifndef HAVE_LIBVNCSERVER_SIZE_T
typedef int size_t;
#endif

/* The type for socklen */
#define HAVE_LIBVNCSERVER_SOCKLEN_T 1
#ifndef HAVE_LIBVNCSERVER_SOCKLEN_T
typedef int socklen_t;
#endif

/* once: _RFB_RFBCONFIG_H */
#endif
