/* C19 harness: file transfer touches the filesystem only when permitted.
 *
 * Real rfbScreenInfo + connections over AF_UNIX socketpairs in RFB_NORMAL state; the UltraVNC
 * built-in file transfer (rfbserver.c) and the TightVNC 1.3 extension (tightvnc-filetransfer/) are
 * driven through the real message entry point rfbProcessClientMessage.  Every libc file-system call
 * the library makes while a scripted message is processed is logged by link-level interposition
 * (this executable defines open/creat/opendir/closedir/stat/lstat/fstat/mkdir/unlink/rmdir/rename/
 * utime/fopen/read/write/close and forwards to the next definition via dlsym(RTLD_NEXT), which is
 * ASan's interceptor or libc).  The TightVNC download thread body is run synchronously
 * (pthread_create is interposed: one legal schedule, deterministic).
 *
 * Sandbox: /tmp/verif-c19-<7 digits> (argv[1] or pid); in everything printed and in every payload
 * sent the digits are replaced by 0000000 so that scripts and observations are reproducible.
 * Mutating calls whose (lexically normalised) target is outside the sandbox are refused with EACCES
 * and logged as "fail" (safety of the machine running the check).
 *
 * ops (one per line)                           observation block (always terminated by a "." line)
 *   cfg permit=<0|1|2> cb=<none|digits>        permit: 0 FALSE, 1 TRUE(-1), 2 the value 1; callback
 *                                              answers per call (digit meaning as permit), last repeats
 *   home <k>                                   k<0: unsetenv HOME; 0: HOME=$S; k>0: HOME=$S/hhh..(k)
 *   tight reg=<0|1> en=<0|1>                   (un)register the extension, EnableFileTransfer
 *   app reg=<0|1>                              (un)register an application-owned security handler (type 77)
 *   pwhome <0|1|2>                             getpwuid: real / home does not exist / no entry
 *   args <option>...                           rfbProcessArguments (extension options -ftproot, -disablefiletransfer)
 *   conn c<i> [viewonly] [tight]               handshake to RFB_NORMAL (tight: security type 16)
 *   view c<i> <0|1>                            cl->viewOnly
 *   send c<i> <hex>                            append bytes to the client->server stream, then
 *   ft c<i> <ct> <cp> <size> <length> <hex>    process messages while input is pending
 *   chunk c<i>                                 rfbSendFileTransferChunk(cl)
 *   gone c<i>                                  peer closes; server notices
 *   reap                                       rfbClientConnectionGone for every closed client
 *   fds                                        transfer descriptors still open
 *   env ...                                    ignored (syscall results for the model side)
 * per processed message:  q <ans>* , fs/x lines, w/tw lines, "= c<i> ..." status, "#t <hash>"
 *   (sandbox tree: names, sizes, contents) and "#c <hash>" (canary: everything outside the TightVNC
 *   root incl. file modification times)
 */
#define _GNU_SOURCE
#include <dlfcn.h>
#include <dirent.h>
#include <sys/stat.h>
#include <sys/types.h>
#include <pthread.h>
#include <utime.h>
#include <ftw.h>
#include <stdarg.h>
#include <zlib.h>
#include <pwd.h>
#include "sess.h"
#include "tightvnc-filetransfer/rfbtightproto.h"
#include "tightvnc-filetransfer/handlefiletransferrequest.h"

extern rfbProtocolExtension tightVncFileTransferExtension;
extern rfbBool rfbSendFileTransferChunk(rfbClientPtr cl);

#define MAXC 64
#define PLACE "verif-c19-0000000"
static vh_conn conns[MAXC];
static int used[MAXC];
static rfbScreenInfoPtr scr;
static char SB[64];            /* real sandbox path */
static char SBDIG[8];          /* its 7 digits */
static int logging = 0, cur = -1, inhook = 0;
static int fdser[4096], fdown[4096], nser = 0, ndser = 0;
static struct { DIR *d; int ser; } dirs[64];
static char cbseq[256]; static int cbn = 0, cbi = 0, cbset = 0;
static int treg = 0;
static int appreg = 0, pwmode = 0;
/* an application-owned security handler (type 77); a client that picks it is simply refused */
static void app_sec_handler(rfbClientPtr cl) { rfbCloseClient(cl); }
static rfbSecurityHandler appHandler = { 77, app_sec_handler, NULL };
/* listing: 0 none; 1 the next rfbDirPacket/rfbADirectory is the path echo; 2 entries follow */
static int listing = 0;

/* ------------------------------------------------------------------ real functions */
#define REAL(ret, name, args) static ret (*real_##name) args; \
  static void init_##name(void) { if (!real_##name) real_##name = (ret (*) args)dlsym(RTLD_NEXT, #name); }
REAL(int, open, (const char *, int, ...))
REAL(int, open64, (const char *, int, ...))
REAL(int, creat, (const char *, mode_t))
REAL(int, close, (int))
REAL(ssize_t, read, (int, void *, size_t))
REAL(ssize_t, write, (int, const void *, size_t))
REAL(DIR *, opendir, (const char *))
REAL(int, closedir, (DIR *))
REAL(int, stat, (const char *, struct stat *))
REAL(int, lstat, (const char *, struct stat *))
REAL(int, fstat, (int, struct stat *))
REAL(int, mkdir, (const char *, mode_t))
REAL(int, unlink, (const char *))
REAL(int, rmdir, (const char *))
REAL(int, rename, (const char *, const char *))
REAL(int, utime, (const char *, const struct utimbuf *))
REAL(FILE *, fopen, (const char *, const char *))
REAL(int, compress, (Bytef *, uLongf *, const Bytef *, uLong))
REAL(int, uncompress, (Bytef *, uLongf *, const Bytef *, uLong))

/* ------------------------------------------------------------------ printing helpers */
static void pct(const unsigned char *p, size_t n) {
  size_t i;
  if (!n) { fputs("%_", stdout); return; }
  for (i = 0; i < n; i++) {
    if (p[i] >= 0x21 && p[i] <= 0x7e && p[i] != '%' && p[i] != '|') putchar(p[i]);
    else printf("%%%02X", p[i]);
  }
}
/* copy with the real sandbox digits replaced by zeros (dir=0) or zeros by the real digits (dir=1) */
static void canon(unsigned char *p, size_t n, int dir) {
  size_t i, L = strlen(PLACE);
  const char *pre = "verif-c19-";
  if (n < L) return;
  for (i = 0; i + L <= n; i++) {
    if (memcmp(p + i, pre, 10)) continue;
    if (dir == 0 && !memcmp(p + i + 10, SBDIG, 7)) memcpy(p + i + 10, "0000000", 7);
    else if (dir == 1 && !memcmp(p + i + 10, "0000000", 7)) memcpy(p + i + 10, SBDIG, 7);
  }
}
static void ppath(const char *path) {
  size_t n = strlen(path); unsigned char *t = (unsigned char *)malloc(n + 1);
  memcpy(t, path, n + 1); canon(t, n, 0); pct(t, n); free(t);
}
static int active(void) { return logging && !inhook; }

/* lexical normalisation -> is the target inside the sandbox?  (no symlinks in the sandbox) */
static int inside(const char *path) {
  char buf[9000], out[9000]; size_t o = 0; char *tok, *save;
  size_t sl = strlen(SB);
  if (strlen(path) > 4200) return 0;
  if (path[0] == '/') snprintf(buf, sizeof buf, "%s", path);
  else snprintf(buf, sizeof buf, "%s/%s", SB, path);      /* cwd is the sandbox */
  out[0] = 0;
  for (tok = strtok_r(buf, "/", &save); tok; tok = strtok_r(NULL, "/", &save)) {
    if (!strcmp(tok, ".")) continue;
    if (!strcmp(tok, "..")) { while (o > 0 && out[o - 1] != '/') o--; if (o > 0) o--; out[o] = 0; continue; }
    out[o++] = '/'; strcpy(out + o, tok); o += strlen(tok);
  }
  return !strncmp(out, SB, sl) && (out[sl] == '/' || out[sl] == 0);
}

static int track(int fd) {
  if (fd >= 0 && fd < 4096) { fdser[fd] = ++nser; fdown[fd] = cur; return nser; }
  return 0;
}

/* ------------------------------------------------------------------ interposers */
static const char *modestr(int flags) {
  static char m[16];
  snprintf(m, sizeof m, "%s%s%s%s", (flags & O_ACCMODE) == O_RDONLY ? "rd" : ((flags & O_ACCMODE) == O_WRONLY ? "wr" : "rw"),
           (flags & (O_CREAT | O_TRUNC | O_APPEND)) ? "+" : "", (flags & O_CREAT) ? "c" : "", (flags & O_TRUNC) ? "t" : "");
  return m;
}
static int do_open(const char *path, int flags, mode_t mode, int is64) {
  int fd;
  init_open(); init_open64();
  if (!active()) return is64 ? real_open64(path, flags, mode) : real_open(path, flags, mode);
  inhook = 1;
  if (((flags & O_ACCMODE) != O_RDONLY || (flags & (O_CREAT | O_TRUNC))) && !inside(path)) { fd = -1; errno = EACCES; }
  else fd = is64 ? real_open64(path, flags, mode) : real_open(path, flags, mode);
  { int e = errno;
    printf("fs open "); ppath(path); printf(" %s -> ", modestr(flags));
    if (fd < 0) puts("fail"); else printf("#%d\n", track(fd));
    errno = e; }
  inhook = 0;
  return fd;
}
int open(const char *path, int flags, ...) {
  mode_t mode = 0; va_list ap; va_start(ap, flags); if (flags & O_CREAT) mode = va_arg(ap, mode_t); va_end(ap);
  return do_open(path, flags, mode, 0);
}
int open64(const char *path, int flags, ...) {
  mode_t mode = 0; va_list ap; va_start(ap, flags); if (flags & O_CREAT) mode = va_arg(ap, mode_t); va_end(ap);
  return do_open(path, flags, mode, 1);
}
int creat(const char *path, mode_t mode) {
  init_creat();
  if (!active()) return real_creat(path, mode);
  return do_open(path, O_CREAT | O_WRONLY | O_TRUNC, mode, 0);
}
int close(int fd) {
  int r;
  init_close();
  if (fd >= 0 && fd < 4096 && fdser[fd]) {
    if (!inhook) { inhook = 1; printf("fs close #%d\n", fdser[fd]); inhook = 0; }
    fdser[fd] = 0;
  }
  r = real_close(fd);
  return r;
}
ssize_t read(int fd, void *buf, size_t n) {
  ssize_t r;
  init_read();
  r = real_read(fd, buf, n);
  if (active() && fd >= 0 && fd < 4096 && fdser[fd]) {
    int e = errno; inhook = 1;
    if (r < 0) printf("fs read #%d -> fail\n", fdser[fd]);
    else printf("fs read #%d -> %ld:%016llx\n", fdser[fd], (long)r, (unsigned long long)vh_fnv((unsigned char *)buf, (size_t)r));
    inhook = 0; errno = e;
  }
  return r;
}
ssize_t write(int fd, const void *buf, size_t n) {
  ssize_t r;
  init_write();
  if (active() && fd >= 0 && fd < 4096 && fdser[fd]) {
    int e;
    r = real_write(fd, buf, n); e = errno; inhook = 1;
    printf("fs write #%d %lu:%016llx -> ", fdser[fd], (unsigned long)n, (unsigned long long)vh_fnv((const unsigned char *)buf, n));
    if (r < 0) puts("fail"); else printf("%ld\n", (long)r);
    inhook = 0; errno = e;
    return r;
  }
  return real_write(fd, buf, n);
}
DIR *opendir(const char *path) {
  DIR *d;
  init_opendir();
  d = real_opendir(path);
  if (active()) {
    int e = errno; inhook = 1;
    printf("fs opendir "); ppath(path);
    if (!d) puts(" -> fail");
    else {
      struct dirent *de; int n = 0, i;
      while ((de = readdir(d))) n++;
      rewinddir(d);
      printf(" -> ok %d", n);
      while ((de = readdir(d))) { putchar(' '); pct((unsigned char *)de->d_name, strlen(de->d_name)); }
      rewinddir(d);
      putchar('\n');
      for (i = 0; i < 64; i++) if (!dirs[i].d) { dirs[i].d = d; dirs[i].ser = ++ndser; break; }
      listing = 1;
    }
    inhook = 0; errno = e;
  }
  return d;
}
int closedir(DIR *d) {
  int i;
  init_closedir();
  for (i = 0; i < 64; i++) if (dirs[i].d == d && d) {
    dirs[i].d = NULL;
    if (!inhook) { inhook = 1; puts("fs closedir"); inhook = 0; }
  }
  return real_closedir(d);
}
static void pstat(const char *what, const char *path, int r, struct stat *st) {
  int e = errno; inhook = 1;
  printf("fs %s ", what); ppath(path);
  if (r != 0) puts(" -> fail");
  else if (S_ISDIR(st->st_mode)) printf(" -> dir %lld\n", (long long)st->st_size);
  else if (S_ISREG(st->st_mode)) printf(" -> file %lld\n", (long long)st->st_size);
  else printf(" -> other %lld\n", (long long)st->st_size);
  inhook = 0; errno = e;
}
int stat(const char *path, struct stat *st) {
  int r; init_stat(); r = real_stat(path, st);
  if (active()) pstat("stat", path, r, st);
  return r;
}
int lstat(const char *path, struct stat *st) {
  int r; init_lstat(); r = real_lstat(path, st);
  if (active()) pstat("lstat", path, r, st);
  return r;
}
int fstat(int fd, struct stat *st) {
  int r; init_fstat(); r = real_fstat(fd, st);
  if (active() && fd >= 0 && fd < 4096 && fdser[fd]) {
    int e = errno; inhook = 1;
    if (r != 0) printf("fs fstat #%d -> fail\n", fdser[fd]);
    else printf("fs fstat #%d -> %lld\n", fdser[fd], (long long)st->st_size);
    inhook = 0; errno = e;
  }
  return r;
}
#define MUT1(name, proto, call, pathvar) \
  int name proto { int r; init_##name(); \
    if (!active()) return real_##name call; \
    inhook = 1; \
    if (!inside(pathvar)) { r = -1; errno = EACCES; } else r = real_##name call; \
    { int e = errno; printf("fs " #name " "); ppath(pathvar); puts(r == 0 ? " -> ok" : " -> fail"); errno = e; } \
    inhook = 0; return r; }
MUT1(mkdir, (const char *path, mode_t mode), (path, mode), path)
MUT1(unlink, (const char *path), (path), path)
MUT1(rmdir, (const char *path), (path), path)
int rename(const char *a, const char *b) {
  int r; init_rename();
  if (!active()) return real_rename(a, b);
  inhook = 1;
  if (!inside(a) || !inside(b)) { r = -1; errno = EACCES; } else r = real_rename(a, b);
  { int e = errno; printf("fs rename "); ppath(a); putchar(' '); ppath(b); puts(r == 0 ? " -> ok" : " -> fail"); errno = e; }
  inhook = 0; return r;
}
int utime(const char *path, const struct utimbuf *t) {
  int r; init_utime();
  if (!active()) return real_utime(path, t);
  inhook = 1;
  if (!inside(path)) { r = -1; errno = EACCES; } else r = real_utime(path, t);
  { int e = errno; printf("fs utime "); ppath(path); puts(r == 0 ? " -> ok" : " -> fail"); errno = e; }
  inhook = 0; return r;
}
FILE *fopen(const char *path, const char *mode) {
  FILE *f; init_fopen();
  if (!active()) return real_fopen(path, mode);
  inhook = 1;
  if (mode[0] != 'r' || strchr(mode, '+')) { if (!inside(path)) { errno = EACCES; f = NULL; } else f = real_fopen(path, mode); }
  else f = real_fopen(path, mode);
  { int e = errno; printf("fs fopen "); ppath(path); printf(" %s -> %s\n", mode, f ? "ok" : "fail"); errno = e; }
  inhook = 0; return f;
}
int compress(Bytef *dst, uLongf *dl, const Bytef *src, uLong sl) {
  int r; init_compress(); r = real_compress(dst, dl, src, sl);
  if (active()) { inhook = 1; if (r == 0) printf("x compress %lu -> %lu\n", (unsigned long)sl, (unsigned long)*dl); else printf("x compress %lu -> fail\n", (unsigned long)sl); inhook = 0; }
  return r;
}
int uncompress(Bytef *dst, uLongf *dl, const Bytef *src, uLong sl) {
  int r; init_uncompress(); r = real_uncompress(dst, dl, src, sl);
  if (active()) { inhook = 1; if (r == 0) printf("x uncompress %lu -> %lu:%016llx\n", (unsigned long)sl, (unsigned long)*dl, (unsigned long long)vh_fnv(dst, *dl)); else printf("x uncompress %lu -> fail\n", (unsigned long)sl); inhook = 0; }
  return r;
}
/* passwd home of the account the server runs under: pwmode 0 real, 1 a directory that does not
   exist, 2 no passwd entry */
struct passwd *getpwuid(uid_t uid) {
  static struct passwd *(*real)(uid_t); static struct passwd fake;
  if (!real) real = (struct passwd *(*)(uid_t))dlsym(RTLD_NEXT, "getpwuid");
  if (pwmode == 2) return NULL;
  if (pwmode == 1) {
    struct passwd *r = real(uid);
    if (r) fake = *r; else memset(&fake, 0, sizeof fake);
    fake.pw_dir = (char *)"/nonexistent/verif-c19-home";
    return &fake;
  }
  return real(uid);
}
/* TightVNC download "thread": run the body synchronously (one legal schedule) */
int pthread_create(pthread_t *t, const pthread_attr_t *a, void *(*fn)(void *), void *arg) {
  (void)a; memset(t, 0, sizeof *t); fn(arg); return 0;
}
int pthread_join(pthread_t t, void **ret) { (void)t; if (ret) *ret = NULL; return 0; }

/* ------------------------------------------------------------------ permission callback */
static int rawval(char d) { return d == '1' ? TRUE : (d == '2' ? 1 : 0); }
static rfbBool perm_cb(rfbClientPtr cl) {
  char d; (void)cl;
  d = cbi < cbn ? cbseq[cbi] : cbseq[cbn - 1];
  if (cbi < cbn) cbi++;
  if (logging) printf("q %c\n", d);
  return (rfbBool)rawval(d);
}

/* ------------------------------------------------------------------ sandbox */
static void mkfile(const char *rel, size_t n) {
  char p[512]; FILE *f; size_t i;
  snprintf(p, sizeof p, "%s/%s", SB, rel);
  f = fopen(p, "wb"); if (!f) { perror(p); exit(2); }
  for (i = 0; i < n; i++) fputc((int)((i * 7 + strlen(rel) + (i >> 8)) & 0xff), f);
  fclose(f);
}
static void mkd(const char *rel) {
  char p[512]; snprintf(p, sizeof p, "%s/%s", SB, rel);
  if (mkdir(p, 0755) != 0 && errno != EEXIST) { perror(p); exit(2); }
}
static int rm_cb(const char *p, const struct stat *st, int flag, struct FTW *f) { (void)st; (void)flag; (void)f; return remove(p); }
static void sandbox_rm(void) { if (SB[0]) nftw(SB, rm_cb, 16, FTW_DEPTH | FTW_PHYS); }
static void sandbox_make(void) {
  sandbox_rm();
  if (mkdir(SB, 0755) != 0) { perror(SB); exit(2); }
  mkfile("a.txt", 100); mkfile("big.bin", 20000); mkfile("empty", 0); mkfile("blk.bin", 8192);
  mkd("dir1"); mkfile("dir1/f1", 10); mkfile("dir1/.hidden", 3); mkd("dir1/sub"); mkfile("dir1/sub/g", 5);
  mkd("dir2");
  mkd("root"); mkfile("root/r.txt", 50); mkd("root/rd"); mkfile("root/rd/x", 7); mkfile("root/zero", 0);
  mkd("root2"); mkfile("root2/secret", 33); mkfile("secret.txt", 44);
  mkfile("zz.bin", 3000);   /* compressible? content is a ramp: yes */
}
static uint64_t th, ch; static char tcur[4300];
static void tree_rec(const char *p) {
  DIR *d = opendir(p); struct dirent *de; struct stat st; uint64_t acc = 0;
  if (!d) return;
  while ((de = readdir(d))) {
    char q[4400]; uint64_t h;
    if (!strcmp(de->d_name, ".") || !strcmp(de->d_name, "..")) continue;
    snprintf(q, sizeof q, "%s/%s", p, de->d_name);
    if (lstat(q, &st)) continue;
    h = vh_fnv((unsigned char *)q + strlen(SB), strlen(q) - strlen(SB)) ^ (uint64_t)st.st_size * 1000003u ^ (S_ISDIR(st.st_mode) ? 0x5555u : 0);
    if (S_ISREG(st.st_mode) && st.st_size <= 65536) {   /* content matters too */
      FILE *f = fopen(q, "rb"); if (f) { static unsigned char b[65536]; size_t n = fread(b, 1, sizeof b, f); fclose(f); h ^= vh_fnv(b, n) * 31; }
    }
    acc += h * 0x9E3779B97F4A7C15ull;     /* order independent */
    { /* canary hash: everything OUTSIDE the TightVNC root, including modification times of files */
      size_t rl = strlen(SB) + 5; /* "<SB>/root" */
      int under_root = !strncmp(q, SB, strlen(SB)) && !strncmp(q + strlen(SB), "/root", 5) && (q[rl] == '/' || q[rl] == 0);
      if (!under_root) {
        uint64_t c = h;
        if (S_ISREG(st.st_mode)) c ^= ((uint64_t)st.st_mtim.tv_sec * 1000000007ull) ^ (uint64_t)st.st_mtim.tv_nsec;
        ch += c * 0xD6E8FEB86659FD93ull;
      }
    }
    if (S_ISDIR(st.st_mode)) tree_rec(q);
  }
  closedir(d);
  th += acc;
}
static void print_tree(void) { int l = logging; logging = 0; th = 0; ch = 0; tree_rec(SB); logging = l;
  printf("#t %016llx\n#c %016llx\n", (unsigned long long)th, (unsigned long long)ch); }

/* ------------------------------------------------------------------ wire parsing (server -> client) */
static uint32_t be32(const unsigned char *p) { return ((uint32_t)p[0] << 24) | (p[1] << 16) | (p[2] << 8) | p[3]; }
static uint32_t le32(const unsigned char *p) { return ((uint32_t)p[3] << 24) | (p[2] << 16) | (p[1] << 8) | p[0]; }
static unsigned be16(const unsigned char *p) { return (p[0] << 8) | p[1]; }
static void ppayload(unsigned char *p, size_t n) {
  canon(p, n, 0);
  if (n <= 600) pct(p, n); else printf("fnv:%016llx", (unsigned long long)vh_fnv(p, n));
}
static void parse_wire(vh_conn *c) {
  for (;;) {
    unsigned char *p = c->out.p; size_t n = c->out.n;
    if (!n) break;
    if (p[0] == rfbFileTransfer) {
      uint32_t size, len; int ct, cp; size_t need;
      if (n < 12) break;
      ct = p[1]; cp = p[2]; size = be32(p + 4); len = be32(p + 8);
      need = 12 + (size_t)len + ((ct == rfbFileHeader && size != 0xFFFFFFFFu) ? 4 : 0);
      if (n < need) break;
      printf("w %d %d %lu %lu ", ct, cp, (unsigned long)size, (unsigned long)len);
      if (ct == rfbFilePacket) {
        if (size == 0) printf("fnv:%016llx", (unsigned long long)vh_fnv(p + 12, len));
        else { static unsigned char raw[70000]; uLongf rl = sizeof raw; init_uncompress();
          if (real_uncompress(raw, &rl, p + 12, len) == Z_OK) printf("zfnv:%lu:%016llx", (unsigned long)rl, (unsigned long long)vh_fnv(raw, rl));
          else printf("zbad"); }
      } else if (ct == rfbFileHeader && size != 0xFFFFFFFFu) {
        /* payload = <name>,<mm/dd/YYYY HH:MM>: mask the 16 time characters */
        if (len >= 17 && p[12 + len - 17] == ',') memset(p + 12 + len - 16, 'T', 16);
        ppayload(p + 12, len);
        printf(" +h%lu", (unsigned long)be32(p + 12 + len));
      } else if (ct == rfbDirPacket && cp == rfbADirectory && listing == 2 && len >= 44) {
        printf("E %lu %lu ", (unsigned long)le32(p + 12), (unsigned long)le32(p + 12 + 32));
        pct(p + 12 + 44, len - 44);
      } else ppayload(p + 12, len);
      putchar('\n');
      if (ct == rfbDirPacket && cp == rfbADirectory && listing == 1) listing = 2;
      vh_buf_consume(&c->out, need);
    } else if (p[0] == rfbFileListData) {
      unsigned nf, ds, cs, i; size_t need; unsigned char *names;
      if (n < 8) break;
      nf = be16(p + 2); ds = be16(p + 4); cs = be16(p + 6); need = 8 + (size_t)nf * 8 + ds;
      if (n < need) break;
      printf("tw 130 %d %u %u %u", p[1], nf, ds, cs);
      names = p + 8 + nf * 8;
      for (i = 0; i < nf; i++) {
        size_t l = strnlen((char *)names, (size_t)(p + need - names));
        printf(" %lu:", (unsigned long)be32(p + 8 + i * 8)); pct(names, l);
        names += l + 1; if (names > p + need) names = p + need;
      }
      putchar('\n');
      vh_buf_consume(&c->out, need);
    } else if (p[0] == rfbFileDownloadData) {
      unsigned rs, cs; size_t need;
      if (n < 6) break;
      rs = be16(p + 2); cs = be16(p + 4); need = 6 + ((rs == 0 && cs == 0) ? 4 : cs);
      if (n < need) break;
      if (rs == 0 && cs == 0) printf("tw 131 %d 0 0 mtime\n", p[1]);
      else printf("tw 131 %d %u %u fnv:%016llx\n", p[1], rs, cs, (unsigned long long)vh_fnv(p + 6, cs));
      vh_buf_consume(&c->out, need);
    } else if (p[0] == rfbFileUploadCancel || p[0] == rfbFileDownloadFailed) {
      unsigned rl; size_t need;
      if (n < 4) break;
      rl = be16(p + 2); need = 4 + rl + (p[0] == rfbFileDownloadFailed ? 1 : 0);
      if (n < need) break;
      printf("tw %d ", p[0]); pct(p + 4, rl);
      if (p[0] == rfbFileDownloadFailed) printf(" +%d", p[4 + rl]);
      putchar('\n');
      vh_buf_consume(&c->out, need);
    } else break;
  }
  if (c->out.n) { printf("wraw "); vh_puthex(stdout, c->out.p, c->out.n > 64 ? 64 : c->out.n); printf(" %lu\n", (unsigned long)c->out.n); vh_buf_reset(&c->out); }
}

/* ------------------------------------------------------------------ status */
static rfbTightClientPtr tdata(rfbClientPtr cl) {
  rfbExtensionData *e;
  for (e = cl->extensions; e; e = e->next) if (e->extension == &tightVncFileTransferExtension) return (rfbTightClientPtr)e->data;
  return NULL;
}
static int hasext(rfbClientPtr cl) {
  rfbExtensionData *e;
  for (e = cl->extensions; e; e = e->next) if (e->extension == &tightVncFileTransferExtension) return 1;
  return 0;
}
static void pfd(int fd) { if (fd >= 0 && fd < 4096 && fdser[fd]) printf("#%d", fdser[fd]); else if (fd == -1) putchar('-'); else printf("?%d", fd); }
static void status(int id) {
  vh_conn *c = &conns[id];
  if (!c->cl) { printf("= c%d gone\n", id); return; }
  printf("= c%d %s fd=", id, c->cl->sock != RFB_INVALID_SOCKET ? "open" : "closed");
  pfd(c->cl->fileTransfer.fd);
  printf(" s=%d r=%d z=%d", c->cl->fileTransfer.sending, c->cl->fileTransfer.receiving, c->cl->fileTransfer.compressionEnabled);
  if (hasext(c->cl)) {
    rfbTightClientPtr t = tdata(c->cl);
    if (!t) printf(" t=freed");
    else { printf(" t=up:"); pfd(t->rcft.rcfu.uploadFD); printf("/%d,dn:", t->rcft.rcfu.uploadInProgress ? 1 : 0); pfd(t->rcft.rcfd.downloadFD); printf("/%d", t->rcft.rcfd.downloadInProgress ? 1 : 0); }
  } else printf(" t=-");
  putchar('\n');
}

/* defect (g) of DESIGN.md section 11 (other properties): rfbWriteExact returns with outputMutex held
   when the socket is already invalid; rfbClientConnectionGone would then self-deadlock.  Not C19's
   subject: release a leaked lock before tearing the client down so that this harness cannot hang. */
static void unleak(rfbClientPtr cl) {
#ifdef LIBVNCSERVER_HAVE_LIBPTHREAD
  if (pthread_mutex_trylock(&cl->outputMutex) == 0) pthread_mutex_unlock(&cl->outputMutex);
  else { pthread_mutex_unlock(&cl->outputMutex); fprintf(stderr, "c19: released leaked outputMutex (defect g)\n"); }
  if (pthread_mutex_trylock(&cl->sendMutex) == 0) pthread_mutex_unlock(&cl->sendMutex);
  else { pthread_mutex_unlock(&cl->sendMutex); fprintf(stderr, "c19: released leaked sendMutex\n"); }
#endif
}

static int isft(unsigned char b) { return b == rfbFileTransfer || (b >= 130 && b <= 136); }

static void process(int id) {
  vh_conn *c = &conns[id]; int guard = 0;
  while (c->cl && c->cl->sock != RFB_INVALID_SOCKET && vh_srv_pending(c->cl->sock) > 0 && guard++ < 1000) {
    unsigned char b = 0;
    if (recv(c->cl->sock, &b, 1, MSG_PEEK) != 1) break;
    if (!isft(b)) {
      unsigned char tmp[4096];
      printf("nonft %d\n", b);
      while (vh_srv_pending(c->cl->sock) > 0) { if (real_read(c->cl->sock, tmp, sizeof tmp) <= 0) break; }
      break;
    }
    cur = id; logging = 1; listing = 0;
    rfbProcessClientMessage(c->cl);
    logging = 0;
    if (c->cl) { vh_drain(c); parse_wire(c); }
    status(id);
    print_tree();
  }
}

static int cid(const char *t) { int i; if (t[0] != 'c') return -1; i = atoi(t + 1); return (i >= 0 && i < MAXC) ? i : -1; }

int main(int argc, char **argv) {
  char *line, *tok[16];
  static unsigned char buf[1 << 20];
  snprintf(SBDIG, sizeof SBDIG, "%07d", (int)((argc > 1 ? atoi(argv[1]) : (int)getpid()) % 10000000));
  snprintf(SB, sizeof SB, "/tmp/verif-c19-%s", SBDIG);
  init_read(); init_write(); init_close();
  sandbox_make();
  atexit(sandbox_rm);
  if (chdir(SB)) { perror("chdir"); return 2; }
  setenv("HOME", SB, 1);
  scr = vh_screen(16, 8, 4);
  if (!scr) { fprintf(stderr, "no screen\n"); return 2; }
  scr->maxClientWait = 30;
  print_tree(); fflush(stdout);
  while ((line = vh_readline())) {
    int n = vh_split(line, tok, 16);
    if (n == 0 || tok[0][0] == '#') continue;
    if (!strcmp(tok[0], "env")) continue;
    if (!strcmp(tok[0], "cfg") && n == 3 && !strncmp(tok[1], "permit=", 7) && !strncmp(tok[2], "cb=", 3)) {
      scr->permitFileTransfer = (rfbBool)rawval(tok[1][7]);
      if (!strcmp(tok[2] + 3, "none")) { scr->getFileTransferPermission = NULL; cbn = 0; }
      else { snprintf(cbseq, sizeof cbseq, "%s", tok[2] + 3); cbn = (int)strlen(cbseq); cbi = 0;
             scr->getFileTransferPermission = cbn ? perm_cb : NULL; }
      puts(".");
    } else if (!strcmp(tok[0], "home") && n == 2) {
      int k = atoi(tok[1]);
      if (k < 0) unsetenv("HOME");
      else if (k == 0) setenv("HOME", SB, 1);
      else { char h[600]; int i, l; if (k > 250) k = 250; l = snprintf(h, sizeof h, "%s/", SB); for (i = 0; i < k; i++) h[l + i] = 'h'; h[l + k] = 0;
             if (mkdir(h, 0755) != 0 && errno != EEXIST) { perror(h); return 2; } setenv("HOME", h, 1); }
      print_tree();
      puts(".");
    } else if (!strcmp(tok[0], "tight") && n == 3 && !strncmp(tok[1], "reg=", 4) && !strncmp(tok[2], "en=", 3)) {
      int r = atoi(tok[1] + 4), e = atoi(tok[2] + 3); char root[128];
      if (r && !treg) { rfbRegisterTightVNCFileTransferExtension(); treg = 1; }
      else if (!r && treg) { rfbUnregisterTightVNCFileTransferExtension(); treg = 0; }
      snprintf(root, sizeof root, "%s/root", SB);
      if (r) SetFtpRoot(root);
      EnableFileTransfer(e ? TRUE : FALSE);
      puts(".");
    } else if (!strcmp(tok[0], "app") && n == 2 && !strncmp(tok[1], "reg=", 4)) {
      int r = atoi(tok[1] + 4);
      if (r && !appreg) { rfbRegisterSecurityHandler(&appHandler); appreg = 1; }
      else if (!r && appreg) { rfbUnregisterSecurityHandler(&appHandler); appreg = 0; }
      puts(".");
    } else if (!strcmp(tok[0], "pwhome") && n == 2) {
      pwmode = atoi(tok[1]);
      puts(".");
    } else if (!strcmp(tok[0], "args") && n >= 1) {
      /* the command-line path: rfbProcessArguments hands unknown options to the extensions */
      char *av[20]; static char store[16][300]; int ac = 1, i;
      av[0] = (char *)"verif";
      for (i = 1; i < n && ac < 17; i++) {
        snprintf(store[ac - 1], sizeof store[0], "%s", tok[i]);
        canon((unsigned char *)store[ac - 1], strlen(store[ac - 1]), 1);
        av[ac] = store[ac - 1]; ac++;
      }
      av[ac] = NULL;
      rfbProcessArguments(scr, &ac, av);
      { char r[4200]; snprintf(r, sizeof r, "%s", GetFtpRoot());
        printf("= args root="); ppath(r); printf(" en=%d\n", IsFileTransferEnabled() ? 1 : 0); }
      puts(".");
    } else if (!strcmp(tok[0], "conn") && n >= 2 && n <= 4) {
      int id = cid(tok[1]), vo = 0, tg = 0, i; vh_conn *c, *arr[1]; unsigned char b[2]; int sec[32], nsec = 0;
      for (i = 2; i < n; i++) { if (!strcmp(tok[i], "viewonly")) vo = 1; else if (!strcmp(tok[i], "tight")) tg = 1; }
      if (id < 0 || used[id]) { puts("bad-op"); puts("."); continue; }
      used[id] = 1; c = &conns[id]; arr[0] = c;
      vh_connect_pre(scr, c, "RFB 003.008\n", 12);
      if (c->cl) {
        if (vo) c->cl->viewOnly = TRUE;
        if (c->cl->state == RFB_PROTOCOL_VERSION) rfbProcessClientMessage(c->cl);
        /* the security types the server offers: 12 bytes version, count, types */
        vh_drain(c); nsec = 0;
        if (c->out.n >= 13) { size_t k; for (k = 0; k < c->out.p[12] && 13 + k < c->out.n && nsec < 32; k++) sec[nsec++] = c->out.p[13 + k]; }
        b[0] = tg ? rfbSecTypeTight : 1; vh_send(c, b, 1);
        if (c->cl && c->cl->sock != RFB_INVALID_SOCKET) rfbProcessClientMessage(c->cl);
        if (c->cl && c->cl->sock != RFB_INVALID_SOCKET && c->cl->state == RFB_INITIALISATION) {
          b[0] = 1; vh_send(c, b, 1); rfbProcessClientMessage(c->cl);
        }
        vh_drain(c); vh_buf_reset(&c->out);
      }
      if (!c->cl) printf("= c%d gone\n", id);
      else {
        int x, y;
        for (x = 0; x < nsec; x++) for (y = x + 1; y < nsec; y++) if (sec[y] < sec[x]) { int t2 = sec[x]; sec[x] = sec[y]; sec[y] = t2; }
        printf("= c%d %s %s sec=", id, c->cl->sock != RFB_INVALID_SOCKET ? "open" : "closed",
               c->cl->state == RFB_NORMAL ? "normal" : "hs");
        for (x = 0; x < nsec; x++) printf("%s%d", x ? "," : "", sec[x]);
        if (!nsec) putchar('-');
        putchar('\n');
      }
      puts(".");
    } else if (!strcmp(tok[0], "view") && n == 3) {
      int id = cid(tok[1]);
      if (id < 0 || !used[id] || !conns[id].cl) { puts("bad-op"); puts("."); continue; }
      conns[id].cl->viewOnly = atoi(tok[2]) ? TRUE : FALSE;
      puts(".");
    } else if ((!strcmp(tok[0], "send") && n == 3) || (!strcmp(tok[0], "ft") && n == 7)) {
      int id = cid(tok[1]); long len; size_t off = 0;
      if (id < 0 || !used[id]) { puts("bad-op"); puts("."); continue; }
      if (tok[0][0] == 'f') {
        unsigned long size = strtoul(tok[4], NULL, 10), l = strtoul(tok[5], NULL, 10);
        buf[0] = rfbFileTransfer; buf[1] = (unsigned char)atoi(tok[2]); buf[2] = (unsigned char)atoi(tok[3]); buf[3] = 0;
        buf[4] = size >> 24; buf[5] = size >> 16; buf[6] = size >> 8; buf[7] = size;
        buf[8] = l >> 24; buf[9] = l >> 16; buf[10] = l >> 8; buf[11] = l;
        off = 12;
      }
      len = vh_unhex(tok[tok[0][0] == 'f' ? 6 : 2], buf + off, sizeof buf - off);
      if (len < 0) { puts("bad-op"); puts("."); continue; }
      if (conns[id].cl && conns[id].cl->sock != RFB_INVALID_SOCKET && conns[id].cl->state == RFB_NORMAL && conns[id].peer >= 0) {
        canon(buf, off + (size_t)len, 1);
        vh_send(&conns[id], buf, off + (size_t)len);
        process(id);
      } else puts("dead");
      puts(".");
    } else if (!strcmp(tok[0], "chunk") && n == 2) {
      int id = cid(tok[1]);
      if (id < 0 || !used[id] || !conns[id].cl) { puts("dead"); puts("."); continue; }
      cur = id; logging = 1; listing = 0;
      { rfbBool r = rfbSendFileTransferChunk(conns[id].cl); logging = 0; vh_drain(&conns[id]); parse_wire(&conns[id]);
        printf("ret %d\n", r ? 1 : 0); }
      status(id); print_tree();
      puts(".");
    } else if (!strcmp(tok[0], "gone") && n == 2) {
      int id = cid(tok[1]);
      if (id < 0 || !used[id] || !conns[id].cl || conns[id].peer < 0) { puts("dead"); puts("."); continue; }
      close(conns[id].peer); conns[id].peer = -1;
      cur = id; logging = 1;
      if (conns[id].cl->sock != RFB_INVALID_SOCKET) {
        /* discard unread input so that the server sees EOF next */
        unsigned char tmp[4096];
        while (vh_srv_pending(conns[id].cl->sock) > 0) { if (real_read(conns[id].cl->sock, tmp, sizeof tmp) <= 0) break; }
        rfbProcessClientMessage(conns[id].cl);
      }
      logging = 0;
      status(id); print_tree();
      puts(".");
    } else if (!strcmp(tok[0], "reap") && n == 1) {
      int id;
      for (id = 0; id < MAXC; id++) {
        if (!used[id] || !conns[id].cl || conns[id].cl->sock != RFB_INVALID_SOCKET) continue;
        cur = id; logging = 1;
        unleak(conns[id].cl);
        rfbClientConnectionGone(conns[id].cl);
        logging = 0;
        printf("reaped c%d\n", id);
      }
      print_tree();
      puts(".");
    } else if (!strcmp(tok[0], "fds") && n == 1) {
      int fd, i, k;
      printf("fds");
      for (k = 1; k <= nser; k++) for (fd = 0; fd < 4096; fd++) if (fdser[fd] == k) printf(" #%d@c%d", fdser[fd], fdown[fd]);
      for (i = 0; i < 64; i++) if (dirs[i].d) printf(" dir#%d", dirs[i].ser);
      putchar('\n');
      puts(".");
    } else { puts("bad-op"); puts("."); }
    fflush(stdout);
  }
  fflush(stdout);
  return 0;
}
