/* C06 companion harness: input gating over REAL sockets, WebSocket transport, with the THREADED event
 * loop (rfbRunEventLoop(..., TRUE): one clientInput thread per client) or the single-threaded one.
 *
 * harness/c06.c virtualises the server's input and drives rfbProcessClientMessage itself, so it cannot
 * see what the library's own per-client thread does with the rest of a WebSocket frame after the
 * connection has been refused.  This program is a plain client of an in-process server:
 *
 *   c06_wsthread thr|st pw
 *     thr = threaded loop, st = rfbProcessEvents driven from here; pw = 1: password list {"full","view"}
 *     (second one view-only).  Scenarios on stdin, one per line:
 *
 *   scn NAME bin|b64|tcp HOOKVO WAIT ITEM...        (tcp: plain RFB connections, no WebSocket)
 *     HOOKVO 1: the application's newClientHook makes the client view-only.
 *     WAIT   eof: wait for the server to close the connection; quiet: wait until the server is quiet;
 *            cbN: wait until N callbacks have arrived.
 *     ITEM   F:HEX          one WebSocket frame with payload HEX ("-" = empty)
 *            an ITEM may start with a connection number 1..4 (default 1): `2F:HEX`; connections
 *            are opened when first used.   W<n> = wait until n callbacks have arrived.
 *            X = the viewer closes its end, the probe waits until
 *            the server has dropped the client
 *            A:KIND:HEX     one frame: the VNC auth response (KIND full|view|bad, computed from the
 *                           challenge the server sent) followed by HEX in the SAME frame
 *   output: the input callbacks in the order they arrive (`kbd c1 D K`, `ptr c1 M X Y`,
 *   `cut c1 LEN FNV`, cN = connection number), then `= NAME eof=0|1` (eof of connection 1), so that the
 *   lines can be compared with Driver/C06.lean run on the equivalent script.
 */
#include <rfb/rfb.h>
#include <pthread.h>
#include <poll.h>
#include <signal.h>
#include <sys/socket.h>
#include <sys/time.h>
#include <fcntl.h>
#include "vh.h"

extern int __b64_ntop(unsigned char const *src, size_t srclength, char *target, size_t targsize);
extern int __b64_pton(char const *src, unsigned char *target, size_t targsize);

static rfbScreenInfoPtr scr;
static int threaded, hook_vo;
static pthread_mutex_t logmx = PTHREAD_MUTEX_INITIALIZER;
static vh_buf cblog; static volatile int ncb;
static char *pws[] = { (char *)"full", (char *)"view", NULL };

static void logf_(const char *fmt, ...) {
  char tmp[160]; va_list ap; int n;
  va_start(ap, fmt); n = vsnprintf(tmp, sizeof tmp, fmt, ap); va_end(ap);
  pthread_mutex_lock(&logmx); vh_buf_add(&cblog, tmp, (size_t)n); ncb++; pthread_mutex_unlock(&logmx);
}
static int idof(rfbClientPtr cl);
static void cb_kbd(rfbBool down, rfbKeySym key, rfbClientPtr cl) { logf_("kbd c%d %u %lu\n", idof(cl), (unsigned)(unsigned char)down, (unsigned long)key); }
static void cb_ptr(int mask, int x, int y, rfbClientPtr cl) { logf_("ptr c%d %d %d %d\n", idof(cl), mask, x, y); }
static void cb_cut(char *t, int len, rfbClientPtr cl) { logf_("cut c%d %d %016llx\n", idof(cl), len, (unsigned long long)vh_fnv((unsigned char *)t, len > 0 ? (size_t)len : 0)); }
static enum rfbNewClientAction new_client(rfbClientPtr cl) { if (hook_vo) cl->viewOnly = TRUE; return RFB_CLIENT_ACCEPT; }
static void gone_hook(rfbClientPtr cl);
static void quiet_log(const char *fmt, ...) { (void)fmt; }

static long now_ms(void) { struct timeval tv; gettimeofday(&tv, NULL); return tv.tv_sec * 1000L + tv.tv_usec / 1000; }

/* ---- client side: up to MAXP connections per scenario ---- */
#define MAXP 4
typedef struct { int fd, eof, used, gone; vh_buf raw, pay; rfbClientPtr cl; } pconn;
static pconn P[MAXP];
static int b64, tcp;              /* transport of the scenario: WebSocket binary / base64, or plain TCP */

static int idof(rfbClientPtr cl) { pconn *c = (pconn *)cl->clientData; return c ? (int)(c - P) + 1 : 0; }
static void gone_hook(rfbClientPtr cl) { pconn *c = (pconn *)cl->clientData; if (c) { c->gone = 1; c->cl = NULL; } }

static void serve(void) { if (!threaded) { int i; for (i = 0; i < 4; i++) rfbProcessEvents(scr, 0); } }

static void pull1(pconn *c) {     /* read what is there, decode complete frames into `pay` */
  unsigned char tmp[8192]; ssize_t n;
  if (!c->used || c->fd < 0) return;
  while (!c->eof && (n = read(c->fd, tmp, sizeof tmp)) != -1) {
    if (n == 0) { c->eof = 1; break; }
    vh_buf_add(tcp ? &c->pay : &c->raw, tmp, (size_t)n);
  }
  while (!tcp) {
    size_t h = 2, l, i;
    if (c->raw.n < 2) break;
    l = c->raw.p[1] & 0x7f;
    if (l == 126) { if (c->raw.n < 4) break; l = (size_t)c->raw.p[2] << 8 | c->raw.p[3]; h = 4; }
    else if (l == 127) { if (c->raw.n < 10) break; l = 0; for (i = 2; i < 10; i++) l = l << 8 | c->raw.p[i]; h = 10; }
    if (c->raw.n < h + l) break;
    if ((c->raw.p[0] & 0x0f) == 8) c->eof = 1;          /* close frame */
    else if ((c->raw.p[0] & 0x0f) == 1) {                /* text frame: base64 */
      char *t = (char *)malloc(l + 1); unsigned char *o = (unsigned char *)malloc(l + 4); int k;
      memcpy(t, c->raw.p + h, l); t[l] = 0;
      k = __b64_pton(t, o, l + 4);
      if (k > 0) vh_buf_add(&c->pay, o, (size_t)k);
      free(t); free(o);
    } else vh_buf_add(&c->pay, c->raw.p + h, l);
    vh_buf_consume(&c->raw, h + l);
  }
}
static size_t pull(void) { size_t tot = 0; int i; for (i = 0; i < MAXP; i++) { pull1(&P[i]); tot += P[i].pay.n + P[i].raw.n + (size_t)P[i].eof + (size_t)P[i].gone; } return tot; }
static void nap(void) { if (threaded) usleep(5000); }

static int wait_pay(pconn *c, size_t want, long ms) {
  long t0 = now_ms();
  for (;;) {
    serve(); pull();
    if (c->pay.n >= want || c->eof) return c->pay.n >= want;
    if (now_ms() - t0 > ms) return 0;
    nap();
  }
}
static void wait_quiet(long quiet_ms, long max_ms) {
  long t0 = now_ms(), last = t0; size_t seen = pull(); int c0 = ncb;
  for (;;) {
    size_t cur;
    serve(); cur = pull();
    if (cur != seen || ncb != c0) { seen = cur; c0 = ncb; last = now_ms(); }
    if (now_ms() - last > quiet_ms || now_ms() - t0 > max_ms) return;
    if (threaded) nap(); else if (now_ms() - last > 30) return;   /* single-threaded: the server only runs inside serve() */
  }
}

static void send_all(pconn *c, const unsigned char *p, size_t n) {
  size_t off = 0;
  while (off < n) {
    ssize_t w = write(c->fd, p + off, n - off);
    if (w < 0) { if (errno == EAGAIN || errno == EINTR) { serve(); pull(); continue; } return; }
    off += (size_t)w;
  }
}
static void ws_send(pconn *c, const unsigned char *d, size_t n) {
  static unsigned ctr; unsigned char *f, m[4], *src = (unsigned char *)d; size_t h = 0, i, sn = n; char *enc = NULL;
  unsigned v = ++ctr * 2654435761u;
  if (tcp) { send_all(c, d, n); return; }
  if (b64) {
    enc = (char *)malloc(n * 2 + 8);
    sn = (size_t)__b64_ntop(d, n, enc, n * 2 + 8); src = (unsigned char *)enc;
  }
  f = (unsigned char *)malloc(sn + 14);
  m[0] = (unsigned char)(v >> 24); m[1] = (unsigned char)(v >> 16); m[2] = (unsigned char)(v >> 8); m[3] = (unsigned char)v;
  f[h++] = b64 ? 0x81 : 0x82;
  if (sn < 126) f[h++] = (unsigned char)(0x80 | sn);
  else { f[h++] = 0x80 | 126; f[h++] = (unsigned char)(sn >> 8); f[h++] = (unsigned char)sn; }
  memcpy(f + h, m, 4); h += 4;
  for (i = 0; i < sn; i++) f[h + i] = src[i] ^ m[i & 3];
  send_all(c, f, h + sn);
  free(f); free(enc);
}

/* open connection k: socketpair, (upgrade request,) rfbNewClient, client thread; returns NULL or an error word */
static const char *open_conn(int k) {
  pconn *c = &P[k]; int sv[2]; char req[512]; long he = -1, t0;
  memset(c, 0, sizeof *c); c->used = 1;
  if (socketpair(AF_UNIX, SOCK_STREAM, 0, sv) < 0) return "no-socketpair";
  c->fd = sv[1];
  if (tcp) { if (write(c->fd, "RFB ", 0) < 0) { } }
  else {
    snprintf(req, sizeof req, "GET / HTTP/1.1\r\nHost: h\r\nOrigin: o\r\nUpgrade: websocket\r\nConnection: Upgrade\r\n"
             "Sec-WebSocket-Key: dGhlIHNhbXBsZSBub25jZQ==\r\nSec-WebSocket-Version: 13\r\nSec-WebSocket-Protocol: %s\r\n\r\n",
             b64 ? "base64" : "binary");
    if (write(c->fd, req, strlen(req)) < 0) return "no-write";
  }
  c->cl = rfbNewClient(scr, sv[0]);              /* performs the upgrade handshake (TCP: waits 100 ms for one) */
  if (!c->cl) return "no-client";
  c->cl->clientData = c; c->cl->clientGoneHook = gone_hook;
  if (threaded) rfbStartOnHoldClient(c->cl);
  fcntl(c->fd, F_SETFL, fcntl(c->fd, F_GETFL) | O_NONBLOCK);
  if (!tcp) {                                    /* HTTP response (not framed) */
    t0 = now_ms();
    while (he < 0 && now_ms() - t0 < 10000) {
      unsigned char ch; ssize_t r;
      serve();
      r = read(c->fd, &ch, 1);
      if (r == 1) { vh_buf_add(&c->raw, &ch, 1); if (c->raw.n >= 4 && !memcmp(c->raw.p + c->raw.n - 4, "\r\n\r\n", 4)) he = (long)c->raw.n; }
      else if (r == 0) break;
      else nap();
    }
    if (he < 0 || !strstr((char *)c->raw.p, "101")) return "no-upgrade";
    vh_buf_reset(&c->raw);
  }
  if (!wait_pay(c, 12, 10000)) return "no-version";
  return NULL;
}

int main(int argc, char **argv) {
  char *line; static char *tok[64];
  int a = 1; char *av[] = { (char *)"c06_wsthread", NULL };
  if (argc != 3) { fprintf(stderr, "usage: c06_wsthread thr|st pw\n"); return 2; }
  threaded = !strcmp(argv[1], "thr");
  signal(SIGPIPE, SIG_IGN);
  if (!getenv("VH_VERBOSE")) { rfbLog = quiet_log; rfbErr = quiet_log; }
  scr = rfbGetScreen(&a, av, 64, 48, 8, 3, 4);
  if (!scr) return 2;
  scr->frameBuffer = (char *)calloc(64 * 48, 4);
  scr->port = 0; scr->ipv6port = 0; scr->autoPort = FALSE; scr->httpPort = 0; scr->http6Port = 0; scr->httpDir = NULL;
  scr->maxClientWait = 2000; scr->deferUpdateTime = 0; scr->alwaysShared = TRUE;
  scr->kbdAddEvent = cb_kbd; scr->ptrAddEvent = cb_ptr; scr->setXCutText = cb_cut; scr->newClientHook = new_client;
  if (atoi(argv[2])) { scr->authPasswdData = pws; scr->authPasswdFirstViewOnly = 1; scr->passwordCheck = rfbCheckPasswordByList; }
  rfbInitServer(scr);
  if (threaded) rfbRunEventLoop(scr, -1, TRUE);

  while ((line = vh_readline())) {
    int n = vh_split(line, tok, 64), i, k; const char *wait, *err = NULL;
    if (n == 0 || tok[0][0] == '#') continue;
    if (strcmp(tok[0], "scn") || n < 5) { puts("bad-op"); fflush(stdout); continue; }
    b64 = !strcmp(tok[2], "b64"); tcp = !strcmp(tok[2], "tcp"); hook_vo = atoi(tok[3]); wait = tok[4];
    vh_buf_reset(&cblog); ncb = 0;
    for (k = 0; k < MAXP; k++) { free(P[k].raw.p); free(P[k].pay.p); memset(&P[k], 0, sizeof P[k]); P[k].fd = -1; }
    for (i = 5; i < n && !err; i++) {
      static unsigned char buf[8192]; long kk; char *it = tok[i]; pconn *c; size_t before;
      k = 0;
      if (it[0] >= '1' && it[0] <= '0' + MAXP) { k = it[0] - '1'; it++; }      /* connection number, default 1 */
      if (it[0] == 'W') {                       /* W<n>: wait until n callbacks have arrived (ordering across connections) */
        int want = atoi(it + 1); long t0 = now_ms();
        while (ncb < want && now_ms() - t0 < 10000) { serve(); pull(); nap(); }
        continue;
      }
      c = &P[k];
      if (!c->used && (err = open_conn(k))) break;
      before = c->pay.n;
      if (!strncmp(it, "F:", 2)) {
        kk = vh_unhex(it + 2, buf, sizeof buf);
        if (kk < 0) { err = "bad-scenario"; break; }
        ws_send(c, buf, (size_t)kk);
      } else if (!strncmp(it, "A:", 2)) {
        char *kind = it + 2, *hex = strchr(kind, ':'); unsigned char resp[CHALLENGESIZE];
        if (!hex || c->pay.n < CHALLENGESIZE) { err = "bad-scenario"; break; }
        *hex++ = 0;
        memcpy(resp, c->pay.p + c->pay.n - CHALLENGESIZE, CHALLENGESIZE);      /* the challenge is the last thing sent */
        if (!strcmp(kind, "full")) rfbEncryptBytes(resp, pws[0]);
        else if (!strcmp(kind, "view")) rfbEncryptBytes(resp, pws[1]);
        else memset(resp, 0x55, sizeof resp);
        memcpy(buf, resp, CHALLENGESIZE);
        kk = vh_unhex(hex, buf + CHALLENGESIZE, sizeof buf - CHALLENGESIZE);
        if (kk < 0) { err = "bad-scenario"; break; }
        ws_send(c, buf, CHALLENGESIZE + (size_t)kk);
      } else if (!strcmp(it, "X")) {             /* the viewer goes away; wait until the server has noticed */
        long t0 = now_ms();
        close(c->fd); c->fd = -1; c->eof = 1;
        while (!c->gone && now_ms() - t0 < 10000) { serve(); nap(); }
      } else { err = "bad-scenario"; break; }
      if (i + 1 < n) {                           /* between items: let the server answer */
        char *nx = tok[i + 1]; if (nx[0] >= '1' && nx[0] <= '0' + MAXP) nx++;
        if (!strncmp(nx, "A:", 2) && c->fd >= 0) wait_pay(c, before + CHALLENGESIZE, 10000);
        wait_quiet(threaded ? 80 : 30, 10000);
      }
    }
    if (err) { printf("= %s %s\n", tok[1], err); fflush(stdout); for (k = 0; k < MAXP; k++) if (P[k].fd >= 0) close(P[k].fd); continue; }
    if (!strcmp(wait, "eof")) { long t0 = now_ms(); while (!P[0].eof && now_ms() - t0 < 10000) wait_quiet(50, 200); wait_quiet(100, 300); }
    else if (!strncmp(wait, "cb", 2)) { int want = atoi(wait + 2); long t0 = now_ms(); while (ncb < want && now_ms() - t0 < 10000) wait_quiet(50, 200); wait_quiet(150, 400); }
    else wait_quiet(threaded ? 600 : 60, 10000);
    pthread_mutex_lock(&logmx);
    if (cblog.n) fwrite(cblog.p, 1, cblog.n, stdout);
    pthread_mutex_unlock(&logmx);
    printf("= %s eof=%d\n", tok[1], P[0].eof);
    fflush(stdout);
    for (k = 0; k < MAXP; k++) if (P[k].fd >= 0) { close(P[k].fd); P[k].fd = -1; }
    { long t0 = now_ms(); int all = 0; while (!all && now_ms() - t0 < 3000) { serve(); all = 1; for (k = 0; k < MAXP; k++) if (P[k].used && P[k].cl && !P[k].gone) all = 0; nap(); } }
  }
  fflush(stdout);
  _exit(0);        /* no teardown of the threaded server: that is C13's subject */
}
