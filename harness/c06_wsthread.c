/* C06 companion harness: input gating over REAL sockets, WebSocket transport, with the THREADED event
 * loop (rfbRunEventLoop(..., TRUE): one clientInput thread per client) or the single-threaded one.
 *
 * harness/c06.c virtualises the server's input and drives rfbProcessClientMessage itself, so it cannot
 * see what the library's own per-client thread does with the rest of a WebSocket frame after the
 * connection has been refused.  This program is a plain client of an in-process server:
 *
 *   c06_wsthread thr|st pw
 *     thr = threaded loop, st = rfbProcessEvents driven from here; pw = 1: password list {"full","view"}
 *     (second one view-only).  Scenarios on stdin, one per line:
 *
 *   scn NAME bin|b64 HOOKVO WAIT ITEM...
 *     HOOKVO 1: the application's newClientHook makes the client view-only.
 *     WAIT   eof: wait for the server to close the connection; quiet: wait until the server is quiet;
 *            cbN: wait until N callbacks have arrived.
 *     ITEM   F:HEX          one WebSocket frame with payload HEX ("-" = empty)
 *            A:KIND:HEX     one frame: the VNC auth response (KIND full|view|bad, computed from the
 *                           challenge the server sent) followed by HEX in the SAME frame
 *   output: the input callbacks in the order they arrive (`kbd c1 D K`, `ptr c1 M X Y`,
 *   `cut c1 LEN FNV`), then `= NAME eof=0|1`.  The client id is always 1 (one connection per scenario)
 *   so that the lines can be compared with Driver/C06.lean run on the equivalent script.
 */
#include <rfb/rfb.h>
#include <pthread.h>
#include <poll.h>
#include <signal.h>
#include <sys/socket.h>
#include <sys/time.h>
#include <fcntl.h>
#include "vh.h"

extern int __b64_ntop(unsigned char const *src, size_t srclength, char *target, size_t targsize);
extern int __b64_pton(char const *src, unsigned char *target, size_t targsize);

static rfbScreenInfoPtr scr;
static int threaded, hook_vo;
static pthread_mutex_t logmx = PTHREAD_MUTEX_INITIALIZER;
static vh_buf cblog; static volatile int ncb, gone;
static char *pws[] = { (char *)"full", (char *)"view", NULL };

static void logf_(const char *fmt, ...) {
  char tmp[160]; va_list ap; int n;
  va_start(ap, fmt); n = vsnprintf(tmp, sizeof tmp, fmt, ap); va_end(ap);
  pthread_mutex_lock(&logmx); vh_buf_add(&cblog, tmp, (size_t)n); ncb++; pthread_mutex_unlock(&logmx);
}
static void cb_kbd(rfbBool down, rfbKeySym key, rfbClientPtr cl) { (void)cl; logf_("kbd c1 %u %lu\n", (unsigned)(unsigned char)down, (unsigned long)key); }
static void cb_ptr(int mask, int x, int y, rfbClientPtr cl) { (void)cl; logf_("ptr c1 %d %d %d\n", mask, x, y); }
static void cb_cut(char *t, int len, rfbClientPtr cl) { (void)cl; logf_("cut c1 %d %016llx\n", len, (unsigned long long)vh_fnv((unsigned char *)t, len > 0 ? (size_t)len : 0)); }
static enum rfbNewClientAction new_client(rfbClientPtr cl) { if (hook_vo) cl->viewOnly = TRUE; return RFB_CLIENT_ACCEPT; }
static void gone_hook(rfbClientPtr cl) { (void)cl; gone = 1; }
static void quiet_log(const char *fmt, ...) { (void)fmt; }

static long now_ms(void) { struct timeval tv; gettimeofday(&tv, NULL); return tv.tv_sec * 1000L + tv.tv_usec / 1000; }

/* ---- client side of the connection ---- */
static int peer = -1, peer_eof, b64;
static vh_buf raw, pay;          /* bytes read from the socket / decoded payload bytes */

static void serve(void) { if (!threaded) { int i; for (i = 0; i < 4; i++) rfbProcessEvents(scr, 0); } }

static void pull(void) {          /* read what is there, decode complete frames into `pay` */
  unsigned char tmp[8192]; ssize_t n;
  while (!peer_eof && (n = read(peer, tmp, sizeof tmp)) != -1) {
    if (n == 0) { peer_eof = 1; break; }
    vh_buf_add(&raw, tmp, (size_t)n);
  }
  for (;;) {
    size_t h = 2, l, i;
    if (raw.n < 2) break;
    l = raw.p[1] & 0x7f;
    if (l == 126) { if (raw.n < 4) break; l = (size_t)raw.p[2] << 8 | raw.p[3]; h = 4; }
    else if (l == 127) { if (raw.n < 10) break; l = 0; for (i = 2; i < 10; i++) l = l << 8 | raw.p[i]; h = 10; }
    if (raw.n < h + l) break;
    if ((raw.p[0] & 0x0f) == 8) peer_eof = 1;          /* close frame */
    else if ((raw.p[0] & 0x0f) == 1) {                  /* text frame: base64 */
      char *s = (char *)malloc(l + 1); unsigned char *o = (unsigned char *)malloc(l + 4); int k;
      memcpy(s, raw.p + h, l); s[l] = 0;
      k = __b64_pton(s, o, l + 4);
      if (k > 0) vh_buf_add(&pay, o, (size_t)k);
      free(s); free(o);
    } else vh_buf_add(&pay, raw.p + h, l);
    vh_buf_consume(&raw, h + l);
  }
}

/* wait until `cond` style predicates hold; returns 0 on time-out */
static int wait_pay(size_t want, long ms) {
  long t0 = now_ms();
  for (;;) {
    serve(); pull();
    if (pay.n >= want || peer_eof) return pay.n >= want;
    if (now_ms() - t0 > ms) return 0;
    if (threaded) { struct pollfd p = { peer, POLLIN, 0 }; poll(&p, 1, 20); }
  }
}
static void wait_quiet(long quiet_ms, long max_ms) {
  long t0 = now_ms(), last = t0; size_t seen = pay.n + raw.n; int c0 = ncb;
  for (;;) {
    serve(); pull();
    if (pay.n + raw.n != seen || ncb != c0) { seen = pay.n + raw.n; c0 = ncb; last = now_ms(); }
    if (peer_eof || now_ms() - last > quiet_ms || now_ms() - t0 > max_ms) return;
    if (threaded) { struct pollfd p = { peer, POLLIN, 0 }; poll(&p, 1, 20); }
    else if (now_ms() - last > 30) return;       /* single-threaded: the server only runs inside serve() */
  }
}

static void send_all(const unsigned char *p, size_t n) {
  size_t off = 0;
  while (off < n) {
    ssize_t w = write(peer, p + off, n - off);
    if (w < 0) { if (errno == EAGAIN || errno == EINTR) { serve(); pull(); continue; } return; }
    off += (size_t)w;
  }
}
static void ws_send(const unsigned char *d, size_t n) {
  static unsigned ctr; unsigned char *f, m[4], *src = (unsigned char *)d; size_t h = 0, i, sn = n; char *enc = NULL;
  unsigned v = ++ctr * 2654435761u;
  if (b64) {
    enc = (char *)malloc(n * 2 + 8);
    sn = (size_t)__b64_ntop(d, n, enc, n * 2 + 8); src = (unsigned char *)enc;
  }
  f = (unsigned char *)malloc(sn + 14);
  m[0] = (unsigned char)(v >> 24); m[1] = (unsigned char)(v >> 16); m[2] = (unsigned char)(v >> 8); m[3] = (unsigned char)v;
  f[h++] = b64 ? 0x81 : 0x82;
  if (sn < 126) f[h++] = (unsigned char)(0x80 | sn);
  else { f[h++] = 0x80 | 126; f[h++] = (unsigned char)(sn >> 8); f[h++] = (unsigned char)sn; }
  memcpy(f + h, m, 4); h += 4;
  for (i = 0; i < sn; i++) f[h + i] = src[i] ^ m[i & 3];
  send_all(f, h + sn);
  free(f); free(enc);
}

int main(int argc, char **argv) {
  char *line; static char *tok[64];
  int a = 1; char *av[] = { (char *)"c06_wsthread", NULL };
  if (argc != 3) { fprintf(stderr, "usage: c06_wsthread thr|st pw\n"); return 2; }
  threaded = !strcmp(argv[1], "thr");
  signal(SIGPIPE, SIG_IGN);
  if (!getenv("VH_VERBOSE")) { rfbLog = quiet_log; rfbErr = quiet_log; }
  scr = rfbGetScreen(&a, av, 64, 48, 8, 3, 4);
  if (!scr) return 2;
  scr->frameBuffer = (char *)calloc(64 * 48, 4);
  scr->port = 0; scr->ipv6port = 0; scr->autoPort = FALSE; scr->httpPort = 0; scr->http6Port = 0; scr->httpDir = NULL;
  scr->maxClientWait = 2000; scr->deferUpdateTime = 0; scr->alwaysShared = TRUE;
  scr->kbdAddEvent = cb_kbd; scr->ptrAddEvent = cb_ptr; scr->setXCutText = cb_cut; scr->newClientHook = new_client;
  if (atoi(argv[2])) { scr->authPasswdData = pws; scr->authPasswdFirstViewOnly = 1; scr->passwordCheck = rfbCheckPasswordByList; }
  rfbInitServer(scr);
  if (threaded) rfbRunEventLoop(scr, -1, TRUE);

  while ((line = vh_readline())) {
    int n = vh_split(line, tok, 64), i, sv[2], bad = 0; rfbClientPtr cl; char req[512]; const char *wait;
    long he;
    if (n == 0 || tok[0][0] == '#') continue;
    if (strcmp(tok[0], "scn") || n < 5) { puts("bad-op"); fflush(stdout); continue; }
    b64 = !strcmp(tok[2], "b64"); hook_vo = atoi(tok[3]); wait = tok[4];
    vh_buf_reset(&raw); vh_buf_reset(&pay); vh_buf_reset(&cblog); ncb = 0; gone = 0; peer_eof = 0;
    if (socketpair(AF_UNIX, SOCK_STREAM, 0, sv) < 0) return 2;
    peer = sv[1];
    snprintf(req, sizeof req, "GET / HTTP/1.1\r\nHost: h\r\nOrigin: o\r\nUpgrade: websocket\r\nConnection: Upgrade\r\n"
             "Sec-WebSocket-Key: dGhlIHNhbXBsZSBub25jZQ==\r\nSec-WebSocket-Version: 13\r\nSec-WebSocket-Protocol: %s\r\n\r\n",
             b64 ? "base64" : "binary");
    if (write(peer, req, strlen(req)) < 0) return 2;
    cl = rfbNewClient(scr, sv[0]);                /* performs the upgrade handshake */
    if (!cl) { printf("= %s no-client\n", tok[1]); fflush(stdout); close(peer); continue; }
    cl->clientGoneHook = gone_hook;
    if (threaded) rfbStartOnHoldClient(cl);
    fcntl(peer, F_SETFL, fcntl(peer, F_GETFL) | O_NONBLOCK);
    /* HTTP response (not framed) */
    { long t0 = now_ms(); he = -1;
      while (he < 0 && now_ms() - t0 < 10000) {
        unsigned char c; ssize_t r;
        serve();
        r = read(peer, &c, 1);
        if (r == 1) { vh_buf_add(&raw, &c, 1); if (raw.n >= 4 && !memcmp(raw.p + raw.n - 4, "\r\n\r\n", 4)) he = (long)raw.n; }
        else if (r == 0) break;
        else if (threaded) { struct pollfd p = { peer, POLLIN, 0 }; poll(&p, 1, 20); }
      }
      if (he < 0 || !strstr((char *)raw.p, "101")) { printf("= %s no-upgrade\n", tok[1]); fflush(stdout); close(peer); continue; }
      vh_buf_reset(&raw);
    }
    if (!wait_pay(12, 10000)) { printf("= %s no-version\n", tok[1]); fflush(stdout); close(peer); continue; }
    for (i = 5; i < n && !bad; i++) {
      static unsigned char buf[8192]; long k; size_t before = pay.n;
      if (!strncmp(tok[i], "F:", 2)) {
        k = vh_unhex(tok[i] + 2, buf, sizeof buf);
        if (k < 0) { bad = 1; break; }
        ws_send(buf, (size_t)k);
      } else if (!strncmp(tok[i], "A:", 2)) {
        char *kind = tok[i] + 2, *hex = strchr(kind, ':'); unsigned char resp[CHALLENGESIZE];
        if (!hex || pay.n < CHALLENGESIZE) { bad = 1; break; }
        *hex++ = 0;
        memcpy(resp, pay.p + pay.n - CHALLENGESIZE, CHALLENGESIZE);      /* the challenge is the last thing sent */
        if (!strcmp(kind, "full")) rfbEncryptBytes(resp, pws[0]);
        else if (!strcmp(kind, "view")) rfbEncryptBytes(resp, pws[1]);
        else memset(resp, 0x55, sizeof resp);
        memcpy(buf, resp, CHALLENGESIZE);
        k = vh_unhex(hex, buf + CHALLENGESIZE, sizeof buf - CHALLENGESIZE);
        if (k < 0) { bad = 1; break; }
        ws_send(buf, CHALLENGESIZE + (size_t)k);
      } else { bad = 1; break; }
      if (i + 1 < n) {                       /* between frames: let the server answer */
        if (i + 1 < n && !strncmp(tok[i + 1], "A:", 2)) { if (!wait_pay(before + CHALLENGESIZE, 10000)) { /* challenge did not come */ } }
        wait_quiet(threaded ? 150 : 30, 10000);
      }
    }
    if (bad) { printf("= %s bad-scenario\n", tok[1]); fflush(stdout); close(peer); continue; }
    if (!strcmp(wait, "eof")) { long t0 = now_ms(); while (!peer_eof && now_ms() - t0 < 10000) wait_quiet(50, 200); wait_quiet(100, 300); }
    else if (!strncmp(wait, "cb", 2)) { int want = atoi(wait + 2); long t0 = now_ms(); while (ncb < want && !peer_eof && now_ms() - t0 < 10000) wait_quiet(50, 200); wait_quiet(150, 400); }
    else wait_quiet(threaded ? 600 : 60, 10000);
    pthread_mutex_lock(&logmx);
    if (cblog.n) fwrite(cblog.p, 1, cblog.n, stdout);
    pthread_mutex_unlock(&logmx);
    printf("= %s eof=%d\n", tok[1], peer_eof);
    fflush(stdout);
    close(peer); peer = -1;
    { long t0 = now_ms(); while (!gone && now_ms() - t0 < 3000) { serve(); if (threaded) usleep(10000); } }
  }
  fflush(stdout);
  _exit(0);        /* no teardown of the threaded server: that is C13's subject */
}
