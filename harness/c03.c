/* C03 harness: complete server->client byte stream of scripted sessions on the REAL server code.
 *
 * One op per line (see vlib/props/c03.py for the generator, Driver/C03.lean for the model side).
 * After every op the event loop is pumped until idle and everything each connection has received
 * from the server is printed:
 *     hook <id> <dx> <dy> U <n> {x1 y1 x2 y2}*n C <m> {x1 y1 x2 y2}*m     (pre-encode hook: the
 *          regions rfbSendFramebufferUpdate is about to encode, in emission order)
 *     tx <id> <hex>                                                        (bytes written by the server)
 *     st <id> gone|closed                                                  (connection state changes)
 *     .                                                                    (end of the op's observations)
 * No interpretation of the bytes happens here: the strict parser is the Lean driver. */
#include "sess.h"
#include <rfb/rfbregion.h>
#include <signal.h>

extern void (*rfbVerifPreEncodeHook)(rfbClientPtr, sraRegionPtr, sraRegionPtr, int, int);

#define MAXC 8
static vh_conn conns[MAXC];
static int used[MAXC], reported_gone[MAXC];
static rfbScreenInfoPtr scr;
static int scrW, scrH, scrBpp;
static int led_state = 0, xvp_result = 1, setds_result = 1;
static char *passwds[2] = { (char *)"sesame", NULL };
static char *name_buf = NULL;
static vh_buf hookout;

static void put16(unsigned char *p, unsigned v) { p[0] = (v >> 8) & 255; p[1] = v & 255; }
static void put32(unsigned char *p, uint32_t v) { p[0] = v >> 24; p[1] = (v >> 16) & 255; p[2] = (v >> 8) & 255; p[3] = v & 255; }

static int conn_id(rfbClientPtr cl) { vh_conn *c = (vh_conn *)cl->clientData; return c ? (int)(c - conns) : -1; }

static void hook(rfbClientPtr cl, sraRegionPtr upd, sraRegionPtr cpy, int dx, int dy) {
  char tmp[128]; sraRectangleIterator *i; sraRect r; int n;
  n = snprintf(tmp, sizeof tmp, "hook %d %d %d U %lu", conn_id(cl), dx, dy, sraRgnCountRects(upd));
  vh_buf_add(&hookout, tmp, n);
  for (i = sraRgnGetIterator(upd); sraRgnIteratorNext(i, &r);) {
    n = snprintf(tmp, sizeof tmp, " %d %d %d %d", r.x1, r.y1, r.x2, r.y2); vh_buf_add(&hookout, tmp, n);
  }
  sraRgnReleaseIterator(i);
  n = snprintf(tmp, sizeof tmp, " C %lu", sraRgnCountRects(cpy)); vh_buf_add(&hookout, tmp, n);
  for (i = sraRgnGetReverseIterator(cpy, dx > 0, dy > 0); sraRgnIteratorNext(i, &r);) {
    n = snprintf(tmp, sizeof tmp, " %d %d %d %d", r.x1, r.y1, r.x2, r.y2); vh_buf_add(&hookout, tmp, n);
  }
  sraRgnReleaseIterator(i);
  vh_buf_add(&hookout, "\n", 1);
}

static int led_hook(rfbScreenInfoPtr s) { (void)s; return led_state; }
static int xvp_hook(rfbClientPtr cl, uint8_t v, uint8_t c) { (void)cl; (void)v; (void)c; return xvp_result; }
static void utf8_hook(char *s, int n, rfbClientPtr cl) { (void)s; (void)n; (void)cl; }

static void do_resize(int w, int h) {
  char *old = scr->frameBuffer, *fb = (char *)calloc((size_t)w * h, scrBpp);
  rfbNewFramebuffer(scr, fb, w, h, scrBpp == 2 ? 5 : 8, scrBpp == 1 ? 1 : 3, scrBpp);
  free(old); scrW = w; scrH = h;
}
/* ExtDesktopSize screen list as an application may report it: n screens side by side; the hook fails
 * from index ext_fail_from on (application error path of rfbSendExtDesktopSize) */
static int ext_screens = 1, ext_fail_from = -1;
static int ext_count_hook(rfbClientPtr cl) { (void)cl; return ext_screens; }
static rfbBool ext_get_hook(int i, rfbExtDesktopScreen *s, rfbClientPtr cl) {
  if (ext_fail_from >= 0 && i >= ext_fail_from) return FALSE;
  s->id = (uint32_t)(i + 1); s->x = (uint16_t)(i * 3); s->y = 0;
  s->width = (uint16_t)cl->scaledScreen->width; s->height = (uint16_t)cl->scaledScreen->height; s->flags = 0;
  return TRUE;
}

/* a protocol extension without any wire effect: exercises the `init` loop that runs between the
 * ServerInit write and the switch to RFB_NORMAL */
static int ext_init_result = 1;
static rfbBool pe_new(rfbClientPtr cl, void **data) { (void)cl; *data = NULL; return TRUE; }
static rfbBool pe_init(rfbClientPtr cl, void *data) { (void)cl; (void)data; return ext_init_result; }
static rfbProtocolExtension pe = { pe_new, pe_init, NULL, NULL, NULL, NULL, NULL, NULL, NULL };
static int pe_registered = 0;

static int setds_hook(int w, int h, int n, rfbExtDesktopScreen *e, rfbClientPtr cl) {
  (void)n; (void)e; (void)cl;
  if (setds_result == 0 && w > 0 && h > 0) do_resize(w, h);
  return setds_result;
}

static int live(int id) {
  return id >= 0 && id < MAXC && used[id] && conns[id].cl && conns[id].cl->sock != RFB_INVALID_SOCKET;
}

static void pump(void) {
  vh_conn *arr[MAXC]; int i;
  for (i = 0; i < MAXC; i++) arr[i] = used[i] ? &conns[i] : NULL;
  vh_pump(scr, arr, MAXC);
}

static char last_scr[2048];
static void report_scr(void) {
  char cur[2048]; unsigned char pf[16]; rfbPixelFormat *f = &scr->serverFormat; size_t i, n; int k;
  const char *nm = scr->desktopName ? scr->desktopName : "";
  memset(pf, 0, sizeof pf);
  pf[0] = f->bitsPerPixel; pf[1] = f->depth; pf[2] = f->bigEndian ? 1 : 0; pf[3] = f->trueColour ? 1 : 0;
  put16(pf + 4, f->redMax); put16(pf + 6, f->greenMax); put16(pf + 8, f->blueMax);
  pf[10] = f->redShift; pf[11] = f->greenShift; pf[12] = f->blueShift;
  k = snprintf(cur, sizeof cur, "scr %d %d %d ", scr->width, scr->height, scr->serverFormat.bitsPerPixel / 8);
  for (i = 0; i < 16; i++) k += snprintf(cur + k, sizeof cur - k, "%02x", pf[i]);
  cur[k++] = ' ';
  n = strlen(nm);
  if (!n) cur[k++] = '-';
  for (i = 0; i < n && k < (int)sizeof cur - 4; i++) k += snprintf(cur + k, sizeof cur - k, "%02x", (unsigned char)nm[i]);
  cur[k] = 0;
  if (strcmp(cur, last_scr)) { puts(cur); strcpy(last_scr, cur); }
}

static void report(void) {
  int i;
  report_scr();
  if (hookout.n) { fwrite(hookout.p, 1, hookout.n, stdout); vh_buf_reset(&hookout); }
  for (i = 0; i < MAXC; i++) {
    if (!used[i]) continue;
    vh_drain(&conns[i]);
    if (conns[i].out.n) {
      printf("tx %d ", i); vh_puthex(stdout, conns[i].out.p, conns[i].out.n); putchar('\n');
      vh_buf_reset(&conns[i].out);
    }
    if (!reported_gone[i] && (!conns[i].cl || conns[i].cl->sock == RFB_INVALID_SOCKET)) {
      printf("st %d closed\n", i); reported_gone[i] = 1;
    }
  }
  puts("."); fflush(stdout);
}

static void csend(int id, const unsigned char *p, size_t n) {
  if (!live(id)) return;
  vh_send(&conns[id], p, n);
}

/* deterministic pixel content; mode selects the colour statistics (for Tight's sub-encodings) */
static uint32_t pix_of(int mode, int x, int y, uint64_t *st, const uint32_t *pal, int npal) {
  switch (mode) {
  case 0: return pal[0];
  case 1: return pal[(x * 7 + y * 13 + (x * y)) % 5 == 0 ? 1 : 0];
  case 2: { uint64_t z = (*st += 0x9E3779B97F4A7C15ull); z ^= z >> 29; return pal[z % (uint64_t)npal]; }
  case 3: { uint64_t z = (*st += 0x9E3779B97F4A7C15ull); z = (z ^ (z >> 30)) * 0xBF58476D1CE4E5B9ull; return (uint32_t)(z >> 20); }
  case 6: return pal[(x + 2 * y) & 3];
  case 7: return pal[((x >> 1) + y) & 1];
  case 4: return (uint32_t)(((x * 3) & 255) | (((y * 5) & 255) << 8) | ((((x + y) * 2) & 255) << 16));
  default: return pal[((x / 5) + (y / 3)) % npal];
  }
}
static void draw(int mode, int x, int y, int w, int h, uint64_t seed) {
  uint32_t pal[256]; int npal, i, j; uint64_t st = seed * 2654435761u + 17;
  vh_srand(seed);
  npal = 3 + (int)(vh_rand() % 200);
  for (i = 0; i < 256; i++) pal[i] = (uint32_t)vh_rand();
  if (x < 0 || y < 0 || x + w > scrW || y + h > scrH) return;
  for (j = y; j < y + h; j++)
    for (i = x; i < x + w; i++) {
      uint32_t p = pix_of(mode, i, j, &st, pal, npal);
      char *d = scr->frameBuffer + (size_t)j * scr->paddedWidthInBytes + (size_t)i * scrBpp;
      if (scrBpp == 1) *(uint8_t *)d = (uint8_t)p;
      else if (scrBpp == 2) { uint16_t q = (uint16_t)p; memcpy(d, &q, 2); }
      else memcpy(d, &p, 4);
    }
  rfbMarkRectAsModified(scr, x, y, x + w, y + h);
}

/* region made of the "black" cells of a checkerboard over [x,x+w) x [y,y+h) (cell size cs);
 * built row by row so that tens of thousands of cells stay cheap */
static sraRegionPtr checker(int x, int y, int w, int h, int cs) {
  sraRegionPtr r = sraRgnCreate(); int i, j;
  if (cs < 1) cs = 1;
  for (j = 0; j * cs < h; j++) {
    sraRegionPtr row = sraRgnCreate();
    for (i = (j & 1); i * cs < w; i += 2) {
      int x1 = x + i * cs, y1 = y + j * cs, x2 = x1 + cs, y2 = y1 + cs;
      sraRegionPtr t;
      if (x2 > x + w) x2 = x + w;
      if (y2 > y + h) y2 = y + h;
      t = sraRgnCreateRect(x1, y1, x2, y2);
      sraRgnOr(row, t); sraRgnDestroy(t);
    }
    sraRgnOr(r, row); sraRgnDestroy(row);
  }
  return r;
}

static void set_cursor(int w, int h, int xhot, int yhot, int rich, uint64_t seed) {
  rfbCursorPtr c = (rfbCursorPtr)calloc(1, sizeof(rfbCursor));
  int rb = (w + 7) / 8, i;
  vh_srand(seed);
  c->cleanup = c->cleanupMask = TRUE;
  c->width = (unsigned short)w; c->height = (unsigned short)h;
  c->xhot = (unsigned short)xhot; c->yhot = (unsigned short)yhot;
  c->foreRed = c->foreGreen = c->foreBlue = 0xffff;
  c->mask = (unsigned char *)calloc((size_t)rb * h + 1, 1);
  for (i = 0; i < rb * h; i++) c->mask[i] = (unsigned char)(vh_rand() | 1);
  if (rich == 2) c->mask[0] = 0;        /* with w = h = 1: the library's "no cursor" convention */
  if (rich == 1) {
    c->cleanupRichSource = TRUE;
    c->richSource = (unsigned char *)calloc((size_t)w * h * scrBpp + 1, 1);
    for (i = 0; i < w * h * scrBpp; i++) c->richSource[i] = (unsigned char)vh_rand();
  } else {
    c->cleanupSource = TRUE;
    c->source = (unsigned char *)calloc((size_t)rb * h + 1, 1);
    for (i = 0; i < rb * h; i++) c->source[i] = (unsigned char)vh_rand();
  }
  rfbSetCursor(scr, c);
}

int main(void) {
  char *line, *tok[4200];
  static unsigned char buf[1 << 16], hx[1 << 20];
  rfbVerifPreEncodeHook = hook;
  signal(SIGPIPE, SIG_IGN);
  while ((line = vh_readline())) {
    int n = vh_split(line, tok, 4200);
    if (n == 0 || tok[0][0] == '#') continue;
    if (!strcmp(tok[0], "screen") && n == 4 && !scr) {
      scrW = atoi(tok[1]); scrH = atoi(tok[2]); scrBpp = atoi(tok[3]);
      scr = vh_screen(scrW, scrH, scrBpp);
      if (!scr) { fprintf(stderr, "no screen\n"); return 2; }
      scr->deferPtrUpdateTime = 0;
    } else if (!scr) { puts("bad-op"); puts("."); fflush(stdout); continue;
    } else if (!strcmp(tok[0], "opt") && n >= 3) {
      const char *k = tok[1]; int v = atoi(tok[2]);
      if (!strcmp(k, "maxrects")) scr->maxRectsPerUpdate = v;
      else if (!strcmp(k, "name")) {
        long l = vh_unhex(tok[2], hx, sizeof hx - 1);
        if (l >= 0) { hx[l] = 0; free(name_buf); name_buf = strdup((char *)hx); scr->desktopName = name_buf; }
      } else if (!strcmp(k, "xvp")) { scr->xvpHook = v ? xvp_hook : NULL; xvp_result = v == 2 ? 0 : 1; }
      else if (!strcmp(k, "utf8")) scr->setXCutTextUTF8 = v ? utf8_hook : NULL;
      else if (!strcmp(k, "ledhook")) scr->getKeyboardLedStateHook = v ? led_hook : NULL;
      else if (!strcmp(k, "passwd")) {
        if (v) { scr->authPasswdData = (void *)passwds; scr->passwordCheck = rfbCheckPasswordByList; }
        else scr->authPasswdData = NULL;
      } else if (!strcmp(k, "norichx")) scr->dontConvertRichCursorToXCursor = v;
      else if (!strcmp(k, "setds")) { scr->setDesktopSizeHook = setds_hook; setds_result = v; }
      else if (!strcmp(k, "identity")) {
        long l = vh_unhex(tok[2], hx, sizeof hx - 1);
        if (l >= 0) { hx[l] = 0; rfbSetServerVersionIdentity(scr, "%s", (char *)hx); }
      } else if (!strcmp(k, "protominor")) rfbSetProtocolVersion(scr, 3, v);
      else if (!strcmp(k, "shared")) { scr->alwaysShared = v; }
      else if (!strcmp(k, "cmap")) {
        /* colour-mapped server format with a palette of v cells (before any client connects) */
        int q; uint8_t *pal = (uint8_t *)calloc((size_t)(v > 0 ? v : 1) * 3, 1);
        for (q = 0; q < v * 3; q++) pal[q] = (uint8_t)(q * 37 + 11);
        scr->serverFormat.trueColour = FALSE;
        scr->colourMap.count = (uint32_t)v; scr->colourMap.is16 = FALSE; scr->colourMap.data.bytes = pal;
      }
      else if (!strcmp(k, "extscreens")) {
        ext_screens = v; scr->numberOfExtDesktopScreensHook = ext_count_hook; scr->getExtDesktopScreenHook = ext_get_hook;
      } else if (!strcmp(k, "extfail")) {
        ext_fail_from = v; scr->numberOfExtDesktopScreensHook = ext_count_hook; scr->getExtDesktopScreenHook = ext_get_hook;
      } else if (!strcmp(k, "ext")) {
        ext_init_result = v == 2 ? 0 : 1;
        if (v && !pe_registered) { rfbRegisterProtocolExtension(&pe); pe_registered = 1; }
      }
      else puts("bad-op");
    } else if (!strcmp(tok[0], "conn") && n == 3) {
      int id = atoi(tok[1]); char pv[16];
      if (id < 0 || id >= MAXC || used[id]) { puts("bad-op"); }
      else {
        used[id] = 1;
        snprintf(pv, sizeof pv, "RFB 003.%03d\n", atoi(tok[2]) % 1000);
        vh_connect_pre(scr, &conns[id], pv, 12);
      }
    } else if (!strcmp(tok[0], "sectype") && n == 3) {
      buf[0] = (unsigned char)atoi(tok[2]); csend(atoi(tok[1]), buf, 1);
    } else if (!strcmp(tok[0], "auth") && n == 3) {
      int id = atoi(tok[1]);
      if (live(id)) {
        memcpy(buf, conns[id].cl->authChallenge, CHALLENGESIZE);
        if (!strcmp(tok[2], "good")) rfbEncryptBytes(buf, passwds[0]); else buf[3] ^= 0x55;
        csend(id, buf, CHALLENGESIZE);
      }
    } else if (!strcmp(tok[0], "cinit") && n == 3) {
      buf[0] = (unsigned char)atoi(tok[2]); csend(atoi(tok[1]), buf, 1);
    } else if (!strcmp(tok[0], "cinitclose") && n == 2) {
      /* ClientInit, then the peer vanishes before the server can write ServerInit */
      int id = atoi(tok[1]);
      if (live(id)) { buf[0] = 1; csend(id, buf, 1); close(conns[id].peer); conns[id].peer = -1; }
    } else if (!strcmp(tok[0], "setpf") && n == 12) {
      memset(buf, 0, 20); buf[0] = rfbSetPixelFormat;
      buf[4] = atoi(tok[2]); buf[5] = atoi(tok[3]); buf[6] = atoi(tok[4]); buf[7] = atoi(tok[5]);
      put16(buf + 8, atoi(tok[6])); put16(buf + 10, atoi(tok[7])); put16(buf + 12, atoi(tok[8]));
      buf[14] = atoi(tok[9]); buf[15] = atoi(tok[10]); buf[16] = atoi(tok[11]);
      csend(atoi(tok[1]), buf, 20);
    } else if (!strcmp(tok[0], "setenc") && n >= 2) {
      int i, k = n - 2;
      buf[0] = rfbSetEncodings; buf[1] = 0; put16(buf + 2, k);
      for (i = 0; i < k; i++) put32(buf + 4 + 4 * i, (uint32_t)strtoul(tok[2 + i], NULL, 10));
      csend(atoi(tok[1]), buf, 4 + 4 * k);
    } else if (!strcmp(tok[0], "fbur") && n == 7) {
      buf[0] = rfbFramebufferUpdateRequest; buf[1] = atoi(tok[2]);
      put16(buf + 2, atoi(tok[3])); put16(buf + 4, atoi(tok[4])); put16(buf + 6, atoi(tok[5])); put16(buf + 8, atoi(tok[6]));
      csend(atoi(tok[1]), buf, 10);
    } else if (!strcmp(tok[0], "ptr") && n == 5) {
      buf[0] = rfbPointerEvent; buf[1] = atoi(tok[2]); put16(buf + 2, atoi(tok[3])); put16(buf + 4, atoi(tok[4]));
      csend(atoi(tok[1]), buf, 6);
    } else if ((!strcmp(tok[0], "setscale") || !strcmp(tok[0], "palmscale")) && n == 3) {
      buf[0] = tok[0][0] == 's' ? rfbSetScale : rfbPalmVNCSetScaleFactor; buf[1] = atoi(tok[2]); buf[2] = buf[3] = 0;
      csend(atoi(tok[1]), buf, 4);
    } else if (!strcmp(tok[0], "setds") && n == 4) {
      memset(buf, 0, 24); buf[0] = rfbSetDesktopSize;
      put16(buf + 2, atoi(tok[2])); put16(buf + 4, atoi(tok[3])); buf[6] = 1;
      put32(buf + 8, 1); put16(buf + 16, atoi(tok[2])); put16(buf + 18, atoi(tok[3]));
      csend(atoi(tok[1]), buf, 24);
    } else if ((!strcmp(tok[0], "ccut") || !strcmp(tok[0], "cxcut")) && n == 3) {
      long l = vh_unhex(tok[2], hx, sizeof hx);
      if (l >= 0) {
        memset(buf, 0, 8); buf[0] = rfbClientCutText;
        put32(buf + 4, tok[0][1] == 'x' ? (uint32_t)(-(int32_t)l) : (uint32_t)l);
        csend(atoi(tok[1]), buf, 8); csend(atoi(tok[1]), hx, (size_t)l);
      }
    } else if (!strcmp(tok[0], "xvpc") && n == 4) {
      buf[0] = rfbXvp; buf[1] = 0; buf[2] = atoi(tok[2]); buf[3] = atoi(tok[3]); csend(atoi(tok[1]), buf, 4);
    } else if (!strcmp(tok[0], "draw") && n == 7) {
      draw(atoi(tok[1]), atoi(tok[2]), atoi(tok[3]), atoi(tok[4]), atoi(tok[5]), strtoull(tok[6], NULL, 10));
    } else if (!strcmp(tok[0], "mark") && n == 5) {
      rfbMarkRectAsModified(scr, atoi(tok[1]), atoi(tok[2]), atoi(tok[1]) + atoi(tok[3]), atoi(tok[2]) + atoi(tok[4]));
    } else if (!strcmp(tok[0], "markchk") && n == 6) {
      sraRegionPtr r = checker(atoi(tok[1]), atoi(tok[2]), atoi(tok[3]), atoi(tok[4]), atoi(tok[5]));
      rfbMarkRegionAsModified(scr, r); sraRgnDestroy(r);
    } else if (!strcmp(tok[0], "copy") && n == 7) {
      int x = atoi(tok[1]), y = atoi(tok[2]);
      rfbDoCopyRect(scr, x, y, x + atoi(tok[3]), y + atoi(tok[4]), atoi(tok[5]), atoi(tok[6]));
    } else if (!strcmp(tok[0], "copyresize") && n == 9) {
      /* the application copies and replaces the framebuffer back to back (no event loop in between) */
      int x = atoi(tok[1]), y = atoi(tok[2]);
      rfbDoCopyRect(scr, x, y, x + atoi(tok[3]), y + atoi(tok[4]), atoi(tok[5]), atoi(tok[6]));
      do_resize(atoi(tok[7]), atoi(tok[8]));
    } else if (!strcmp(tok[0], "setcmaps") && n == 3) {
      rfbSetClientColourMaps(scr, atoi(tok[1]), atoi(tok[2]));
    } else if (!strcmp(tok[0], "copychk") && n == 8) {
      sraRegionPtr r = checker(atoi(tok[1]), atoi(tok[2]), atoi(tok[3]), atoi(tok[4]), atoi(tok[5]));
      rfbScheduleCopyRegion(scr, r, atoi(tok[6]), atoi(tok[7])); sraRgnDestroy(r);
    } else if (!strcmp(tok[0], "cursor") && n == 7) {
      set_cursor(atoi(tok[1]), atoi(tok[2]), atoi(tok[3]), atoi(tok[4]), atoi(tok[5]), strtoull(tok[6], NULL, 10));
    } else if (!strcmp(tok[0], "bell") && n == 1) { rfbSendBell(scr);
    } else if (!strcmp(tok[0], "scut") && n == 2) {
      long l = vh_unhex(tok[1], hx, sizeof hx); if (l >= 0) rfbSendServerCutText(scr, (char *)hx, (int)l);
    } else if (!strcmp(tok[0], "scututf8") && n == 3) {
      static unsigned char fb2[1 << 16];
      long l = vh_unhex(tok[1], hx, sizeof hx), l2 = vh_unhex(tok[2], fb2, sizeof fb2);
      if (l >= 0 && l2 >= 0) rfbSendServerCutTextUTF8(scr, (char *)hx, (int)l, (char *)fb2, (int)l2);
    } else if (!strcmp(tok[0], "led") && n == 2) { led_state = atoi(tok[1]);
    } else if (!strcmp(tok[0], "resize") && n == 3) { do_resize(atoi(tok[1]), atoi(tok[2]));
    } else if (!strcmp(tok[0], "chat") && n == 4) {
      int id = atoi(tok[1]); long l = vh_unhex(tok[3], hx, sizeof hx);
      if (live(id) && l >= 0) rfbSendTextChatMessage(conns[id].cl, (uint32_t)strtoul(tok[2], NULL, 10), (char *)hx);
    } else if (!strcmp(tok[0], "xvps") && n == 4) {
      int id = atoi(tok[1]); if (live(id)) rfbSendXvp(conns[id].cl, (uint8_t)atoi(tok[2]), (uint8_t)atoi(tok[3]));
    } else if (!strcmp(tok[0], "pump") && n == 1) {
    } else if (!strcmp(tok[0], "close") && n == 2) {
      int id = atoi(tok[1]);
      if (live(id)) { close(conns[id].peer); conns[id].peer = -1; }
    } else puts("bad-op");
    pump();
    report();
  }
  return 0;
}
