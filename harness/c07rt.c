/* C07 round trip: this repository's SERVER encodes, this repository's CLIENT library decodes.
 *
 * One process, no threads: the client library's socket I/O is interposed; whenever the client
 * wants to read and nothing is buffered, the interposer hands what the client has written to the
 * real server (over the server's AF_UNIX socketpair), runs the server's event loop, and collects
 * the server's output as the client's input.
 *
 * ops:  server W H seed                 screen 32bpp (server format rgb 0/8/16), pseudo-random content
 *       client enc=<a+b> level=<0-9>    LibVNCClient with the SAME pixel format, JPEG off
 *       init                            rfbInitClient + first full update
 *       draw x y w h seed kind          kind 0 noise, 1 flat, 2 two-colour, 3 gradient; marks modified
 *       copy x y w h dx dy              rfbDoCopyRect
 *       update                          incremental request, messages until FinishedFrameBufferUpdate
 * observation after init/update:  `eq` when client->frameBuffer == server framebuffer, else the
 * first differing pixel; plus the encodings of the rectangles the client reported.
 */
#define _GNU_SOURCE
#include "sess.h"
#include <rfb/rfbclient.h>
#include <dlfcn.h>
#include <signal.h>
#include <zlib.h>

static rfbScreenInfoPtr scr; static vh_conn sc;
static rfbClient *cl; static int cfd = -1;
static vh_buf c2s;                 /* client -> server, not yet delivered */
static size_t s2c_off = 0;         /* read offset into sc.out */
static int finished = 0, nrects = 0;
static ssize_t (*real_read)(int, void *, size_t);
static ssize_t (*real_write)(int, const void *, size_t);
static int (*real_select)(int, fd_set *, fd_set *, fd_set *, struct timeval *);
static int in_pump = 0;

static void exchange(void) {
  vh_conn *arr[1]; arr[0] = &sc;
  in_pump = 1;
  if (c2s.n) { vh_send(&sc, c2s.p, c2s.n); vh_buf_reset(&c2s); }
  vh_pump(scr, arr, 1);
  in_pump = 0;
}
ssize_t read(int fd, void *buf, size_t n) {
  if (!real_read) real_read = (ssize_t (*)(int, void *, size_t))dlsym(RTLD_NEXT, "read");
  if (fd != cfd || cfd < 0 || in_pump) return real_read(fd, buf, n);
  if (s2c_off == sc.out.n) { exchange(); }
  if (s2c_off == sc.out.n) return 0;                     /* the server has nothing to say: EOF */
  { size_t k = sc.out.n - s2c_off; if (k > n) k = n;
    if (k > 4093) k = 4093;                              /* odd chunking on purpose */
    memcpy(buf, sc.out.p + s2c_off, k); if (getenv("VH_VERBOSE")) { size_t z; fprintf(stderr, "read %lu:", (unsigned long)k); for (z = 0; z < k && z < 260; z++) fprintf(stderr, " %02x", sc.out.p[s2c_off + z]); fprintf(stderr, " ..."); for (z = (k > 24 ? k - 24 : 0); z < k; z++) fprintf(stderr, " %02x", sc.out.p[s2c_off + z]); fputc('\n', stderr); } s2c_off += k;
    if (s2c_off == sc.out.n) { s2c_off = 0; sc.out.n = 0; }
    return (ssize_t)k; }
}
ssize_t write(int fd, const void *buf, size_t n) {
  if (!real_write) real_write = (ssize_t (*)(int, const void *, size_t))dlsym(RTLD_NEXT, "write");
  if (fd != cfd || cfd < 0 || in_pump) return real_write(fd, buf, n);
  vh_buf_add(&c2s, buf, n);
  return (ssize_t)n;
}
int select(int nfds, fd_set *r, fd_set *w, fd_set *e, struct timeval *t) {
  if (!real_select) real_select = (int (*)(int, fd_set *, fd_set *, fd_set *, struct timeval *))dlsym(RTLD_NEXT, "select");
  if (!in_pump && cfd >= 0 && nfds == cfd + 1 && ((r && FD_ISSET(cfd, r)) || (w && FD_ISSET(cfd, w)))) return 1;
  return real_select(nfds, r, w, e, t);
}
static void on_alarm(int s) { static const char m[] = "HANG\n"; (void)s; real_write(1, m, 5); _exit(3); }
static void qlog(const char *f, ...) { (void)f; }
static void cb_fin(rfbClient *c) { finished = 1; }
static void cb_upd(rfbClient *c, int x, int y, int w, int h) { nrects++; if (getenv("VH_VERBOSE")) fprintf(stderr, "rect %d %d %d %d fb0=%08x fb1=%08x cw=%d ch=%d bpp=%d buf0=%02x%02x%02x%02x\n", x, y, w, h, ((uint32_t*)c->frameBuffer)[0], ((uint32_t*)c->frameBuffer)[1], c->width, c->height, c->format.bitsPerPixel, (unsigned char)c->buffer[0], (unsigned char)c->buffer[1], (unsigned char)c->buffer[2], (unsigned char)c->buffer[3]); }

static void paint(int x, int y, int w, int h, uint64_t seed, int kind) {
  uint32_t *fb = (uint32_t *)scr->frameBuffer; int i, j; uint32_t a, b;
  vh_srand(seed); a = (uint32_t)vh_rand() & 0xFFFFFF; b = (uint32_t)vh_rand() & 0xFFFFFF;
  for (j = y; j < y + h; j++) for (i = x; i < x + w; i++) {
    uint32_t v;
    switch (kind) {
      case 1: v = a; break;
      case 2: v = ((vh_rand() >> 7) & 3) ? a : b; break;
      case 3: v = ((uint32_t)(i * 3) & 255) | (((uint32_t)(j * 5) & 255) << 8) | (((uint32_t)(i + j) & 255) << 16); break;
      default: v = (uint32_t)vh_rand() & 0xFFFFFF;
    }
    fb[j * scr->width + i] = v;
  }
}
static void compare(void) {
  size_t n = (size_t)scr->width * scr->height, i; uint32_t *a = (uint32_t *)scr->frameBuffer, *b = (uint32_t *)cl->frameBuffer;
  if (cl->width != scr->width || cl->height != scr->height) { printf("size %dx%d vs %dx%d\n", cl->width, cl->height, scr->width, scr->height); return; }
  for (i = 0; i < n; i++) if ((a[i] & 0xFFFFFF) != (b[i] & 0xFFFFFF)) {
    printf("diff at %lu,%lu server=%06x client=%06x rects=%d\n", (unsigned long)(i % scr->width), (unsigned long)(i / scr->width), a[i] & 0xFFFFFF, b[i] & 0xFFFFFF, nrects);
    return; }
  printf("eq rects=%d\n", nrects);
}

int main(void) {
  char *line, *tok[16]; static char *encstr;
  struct sigaction sa; memset(&sa, 0, sizeof sa); sa.sa_handler = on_alarm; sigaction(SIGALRM, &sa, NULL);
  real_read = (ssize_t (*)(int, void *, size_t))dlsym(RTLD_NEXT, "read");
  real_write = (ssize_t (*)(int, const void *, size_t))dlsym(RTLD_NEXT, "write");
  real_select = (int (*)(int, fd_set *, fd_set *, fd_set *, struct timeval *))dlsym(RTLD_NEXT, "select");
  if (!getenv("VH_VERBOSE")) { rfbClientLog = qlog; rfbClientErr = qlog; }
  while ((line = vh_readline())) {
    int n = vh_split(line, tok, 16);
    if (n == 0 || tok[0][0] == '#') continue;
    alarm(30);
    if (!strcmp(tok[0], "server") && n == 4 && !scr) {
      scr = vh_screen(atoi(tok[1]), atoi(tok[2]), 4);
      if (!scr) { puts("bad-op"); continue; }
      paint(0, 0, scr->width, scr->height, (uint64_t)atoll(tok[3]), 0);
      puts("ok");
    } else if (!strcmp(tok[0], "client") && n == 3 && scr && !cl) {
      char *q; int sv;
      cl = rfbGetClient(8, 3, 4);
      encstr = strdup(tok[1] + 4); for (q = encstr; *q; q++) if (*q == '+') *q = ' ';
      cl->appData.encodingsString = encstr; cl->appData.compressLevel = atoi(tok[2] + 6);
      cl->appData.enableJPEG = FALSE; cl->canHandleNewFBSize = TRUE;
      cl->appData.useRemoteCursor = TRUE;   /* otherwise the server paints its cursor into the updates */
      vh_connect_pre(scr, &sc, NULL, 0);
      sv = dup(sc.peer);              /* any valid descriptor: all I/O on it is interposed */
      cl->sock = sv; cfd = sv; cl->listenSpecified = TRUE;
      cl->FinishedFrameBufferUpdate = cb_fin; cl->GotFrameBufferUpdate = cb_upd;
      puts("ok");
    } else if (!strcmp(tok[0], "init") && cl) {
      finished = 0; nrects = 0;
      if (!rfbInitClient(cl, NULL, NULL)) { cl = NULL; cfd = -1; puts("init F"); continue; }
      memset(cl->frameBuffer, 0, (size_t)cl->width * cl->height * 4);
      /* the first update(s) may carry only capability pseudo-rectangles */
      { int k = 0, bad = 0; while (!(finished && nrects > 0) && k++ < 1000) { finished = 0; if (!HandleRFBServerMessage(cl)) { puts("msg F"); bad = 1; break; } }
        if (!bad) compare(); }
    } else if (!strcmp(tok[0], "draw") && n == 7 && scr) {
      int x = atoi(tok[1]), y = atoi(tok[2]), w = atoi(tok[3]), h = atoi(tok[4]);
      if (x < 0 || y < 0 || w < 0 || h < 0 || x + w > scr->width || y + h > scr->height) { puts("bad-op"); continue; }
      paint(x, y, w, h, (uint64_t)atoll(tok[5]), atoi(tok[6]));
      rfbMarkRectAsModified(scr, x, y, x + w, y + h);
      puts("ok");
    } else if (!strcmp(tok[0], "copy") && n == 7 && scr) {
      int x = atoi(tok[1]), y = atoi(tok[2]), w = atoi(tok[3]), h = atoi(tok[4]), dx = atoi(tok[5]), dy = atoi(tok[6]);
      if (x < 0 || y < 0 || x + w > scr->width || y + h > scr->height || x - dx < 0 || y - dy < 0 ||
          x - dx + w > scr->width || y - dy + h > scr->height) { puts("bad-op"); continue; }
      rfbDoCopyRect(scr, x, y, x + w, y + h, dx, dy);
      puts("ok");
    } else if (!strcmp(tok[0], "update") && cl) {
      int k = 0; finished = 0; nrects = 0;
      /* the incremental request was already sent after the previous update */
      { int bad = 0; while (!(finished && nrects > 0) && k++ < 1000) { finished = 0; if (!HandleRFBServerMessage(cl)) { puts("msg F"); bad = 1; break; } }
        if (!bad) compare(); }
    } else puts("bad-op");
    fflush(stdout);
    alarm(0);
  }
  if (cl) { unsigned char *fb = cl->frameBuffer; rfbClientCleanup(cl); free(fb); }
  free(encstr);
  return 0;
}
