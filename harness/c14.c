/* C14 harness: shared / non-shared session policy on the real server code.
 * ops: cfg a n d | args tok.. | conn id rev | conn889 id rev | rconn id mode | hs id |
 *      init id shared | close id | reap | state
 * One observation line per op (see Driver/C14.lean for the model side). */
#ifndef _GNU_SOURCE
#define _GNU_SOURCE
#endif
#include "sess.h"
#include <dlfcn.h>
#include <poll.h>
#include <netinet/in.h>
#include <netinet/tcp.h>
#include <arpa/inet.h>

#define MAXC 64
static vh_conn conns[MAXC];
static int used[MAXC], hsdone[MAXC], is889[MAXC];
static rfbScreenInfoPtr scr;

/* ---- the protocol extension whose command-line options the `args` op exercises (model: demoExt) */
static int ext_arg(int argc, char *argv[]) {
  if (argc >= 2 && !strcmp(argv[0], "-chan")) return 2;
  if (argc >= 1 && !strcmp(argv[0], "-xflag")) return 1;
  if (argc >= 3 && !strcmp(argv[0], "-tri")) return 3;
  return 0;
}
static rfbProtocolExtension verif_ext;   /* all other methods NULL */

/* ---- the listening viewer the real rfbReverseConnection connects to (loopback TCP).  connect() is
 * interposed only to play the viewer's part at the right moment: accept and write the viewer's
 * version string at once, so that rfbNewClient's WebSocket peek does not wait 100 ms. */
static int listen_fd = -1, listen_port, dead_port, rc_armed, rc_accepted = -1, refuse_next;
static void open_listener(void) {
  struct sockaddr_in a; socklen_t l = sizeof a; int fd;
  if (listen_fd >= 0) return;
  memset(&a, 0, sizeof a); a.sin_family = AF_INET; a.sin_addr.s_addr = htonl(INADDR_LOOPBACK);
  listen_fd = socket(AF_INET, SOCK_STREAM, 0);
  if (listen_fd < 0 || bind(listen_fd, (struct sockaddr *)&a, sizeof a) < 0 || listen(listen_fd, 16) < 0 ||
      getsockname(listen_fd, (struct sockaddr *)&a, &l) < 0) { perror("listener"); exit(2); }
  listen_port = ntohs(a.sin_port);
  memset(&a, 0, sizeof a); a.sin_family = AF_INET; a.sin_addr.s_addr = htonl(INADDR_LOOPBACK); l = sizeof a;
  fd = socket(AF_INET, SOCK_STREAM, 0);
  if (fd < 0 || bind(fd, (struct sockaddr *)&a, sizeof a) < 0 || getsockname(fd, (struct sockaddr *)&a, &l) < 0) { perror("deadport"); exit(2); }
  dead_port = ntohs(a.sin_port);   /* bound, never listening, closed again: connections are refused */
  close(fd);
}
int connect(int fd, const struct sockaddr *addr, socklen_t len) {
  static int (*real)(int, const struct sockaddr *, socklen_t);
  int r;
  if (!real) real = (int (*)(int, const struct sockaddr *, socklen_t))dlsym(RTLD_NEXT, "connect");
  r = real(fd, addr, len);
  if (rc_armed && addr && addr->sa_family == AF_INET &&
      ntohs(((const struct sockaddr_in *)addr)->sin_port) == listen_port) {
    int e = errno;
    if (r < 0 && (e == EINPROGRESS || e == EWOULDBLOCK)) {
      struct pollfd pf; int soerr = 0; socklen_t sl = sizeof soerr;
      pf.fd = fd; pf.events = POLLOUT;
      if (poll(&pf, 1, 2000) == 1 && getsockopt(fd, SOL_SOCKET, SO_ERROR, &soerr, &sl) == 0 && soerr == 0) r = 0;
      else { errno = soerr ? soerr : ETIMEDOUT; return -1; }
    }
    if (r == 0) {
      rc_armed = 0;
      rc_accepted = accept(listen_fd, NULL, NULL);
      if (rc_accepted >= 0) {
        int one = 1; ssize_t w;
        fcntl(rc_accepted, F_SETFL, fcntl(rc_accepted, F_GETFL) | O_NONBLOCK);
        setsockopt(rc_accepted, IPPROTO_TCP, TCP_NODELAY, &one, sizeof one);
        w = write(rc_accepted, "RFB 003.008\n", 12); (void)w;
      }
    } else errno = e;
  }
  return r;
}
static enum rfbNewClientAction new_client_hook(rfbClientPtr cl) {
  (void)cl;
  if (refuse_next) { refuse_next = 0; return RFB_CLIENT_REFUSE; }
  return RFB_CLIENT_ACCEPT;
}

static int live(int id) {
  return id >= 0 && id < MAXC && used[id] && conns[id].cl && conns[id].cl->sock != RFB_INVALID_SOCKET;
}

int main(void) {
  char *line, *tok[16];
  scr = vh_screen(16, 8, 4);
  if (!scr) { fprintf(stderr, "no screen\n"); return 2; }
  scr->newClientHook = new_client_hook;
  verif_ext.processArgument = ext_arg;
  rfbRegisterProtocolExtension(&verif_ext);
  while ((line = vh_readline())) {
    int n = vh_split(line, tok, 16);
    if (n == 0 || tok[0][0] == '#') continue;
    if (!strcmp(tok[0], "cfg") && n == 4) {
      scr->alwaysShared = atoi(tok[1]); scr->neverShared = atoi(tok[2]); scr->dontDisconnect = atoi(tok[3]);
      puts("ok");
    } else if (!strcmp(tok[0], "args") && n >= 1) {
      /* command-line configuration path: rfbProcessArguments (cargs.c) on the live screen */
      static char *pool[4096]; static int npool;      /* option values stay referenced by the screen */
      char *argv[18]; int argc = n, i; rfbBool r;
      if (n > 16 || npool + n > 4096) { puts("bad-op"); continue; }
      argv[0] = (char *)"verif";
      for (i = 1; i < n; i++) argv[i] = pool[npool++] = strdup(tok[i]);
      argv[argc] = NULL;
      r = rfbProcessArguments(scr, &argc, argv);
      fputs(r ? "ok" : "fail", stdout);
      for (i = 1; i < argc; i++) printf(" %s", argv[i]);   /* what is left for the application */
      putchar('\n');
    } else if ((!strcmp(tok[0], "conn") || !strcmp(tok[0], "conn889")) && n == 3) {
      int id = atoi(tok[1]);
      if (id < 0 || id >= MAXC || used[id]) { puts("bad-op"); continue; }
      used[id] = 1;
      /* "RFB 003.889": the Mac OS X client, which never sends ClientInit (implicit shared flag) */
      is889[id] = tok[0][4] == '8';
      vh_connect_pre(scr, &conns[id], is889[id] ? "RFB 003.889\n" : "RFB 003.008\n", 12);
      if (conns[id].cl && atoi(tok[2])) conns[id].cl->reverseConnection = TRUE; /* as rfbReverseConnection does */
      puts("ok");
    } else if (!strcmp(tok[0], "badconn") && n == 3) {
      /* a connection attempt that fails inside rfbNewClient(): kind 0 = first bytes that are neither
         "RFB " nor a WebSocket "GET " (refused by the connection-type detection), kind 1 = the peer
         hangs up at once.  No record may remain, and nobody else may be affected. */
      int id = atoi(tok[1]), kind = atoi(tok[2]);
      if (id < 0 || id >= MAXC || used[id] || kind < 0 || kind > 1) { puts("bad-op"); continue; }
      used[id] = 1;
      if (kind == 0) vh_connect_pre(scr, &conns[id], "HEAD / HTTP/1.0\r\n\r\n", 19);
      else {
        int sv[2];
        memset(&conns[id], 0, sizeof conns[id]);
        if (socketpair(AF_UNIX, SOCK_STREAM, 0, sv) < 0) { perror("socketpair"); return 2; }
        close(sv[1]);
        conns[id].peer = -1; conns[id].srvfd = sv[0];
        conns[id].cl = rfbNewClient(scr, sv[0]);
        if (conns[id].cl) { conns[id].cl->clientData = &conns[id]; conns[id].cl->clientGoneHook = vh_gone_hook; }
      }
      puts(conns[id].cl ? "accepted" : "refused");
    } else if (!strcmp(tok[0], "rconn") && n == 3) {
      /* the REAL rfbReverseConnection.  mode 1: a viewer listens; 0: nobody listens (connection
         refused); 2: the connection is made but the application's newClientHook refuses it */
      int id = atoi(tok[1]), mode = atoi(tok[2]); rfbClientPtr cl;
      if (id < 0 || id >= MAXC || used[id] || mode < 0 || mode > 2) { puts("bad-op"); continue; }
      open_listener();
      if (mode == 0) {
        cl = rfbReverseConnection(scr, (char *)"127.0.0.1", dead_port);
        if (cl) { fprintf(stderr, "reverse connection to a closed port succeeded\n"); return 2; }
        puts("rc-failed");
        continue;
      }
      rc_armed = 1; rc_accepted = -1; refuse_next = (mode == 2);
      cl = rfbReverseConnection(scr, (char *)"127.0.0.1", listen_port);
      rc_armed = 0; refuse_next = 0;
      if (rc_accepted < 0) { fprintf(stderr, "the listening viewer was not reached\n"); return 2; }
      if (mode == 2) {
        if (cl) { fprintf(stderr, "refused reverse connection returned a client\n"); return 2; }
        close(rc_accepted);
        puts("rc-failed");
        continue;
      }
      if (!cl) { fprintf(stderr, "reverse connection to the listening viewer failed\n"); return 2; }
      used[id] = 1; is889[id] = 0;
      memset(&conns[id], 0, sizeof conns[id]);
      conns[id].cl = cl; conns[id].peer = rc_accepted; conns[id].srvfd = cl->sock;
      cl->clientData = &conns[id]; cl->clientGoneHook = vh_gone_hook;
      puts("ok");
    } else if (!strcmp(tok[0], "hs") && n == 2) {
      int id = atoi(tok[1]); unsigned char one = 1;
      if (!live(id) || hsdone[id]) { puts("bad-op"); continue; }
      hsdone[id] = 1;
      if (conns[id].cl->state == RFB_PROTOCOL_VERSION) rfbProcessClientMessage(conns[id].cl);
      vh_send(&conns[id], &one, 1);
      rfbProcessClientMessage(conns[id].cl);
      vh_drain(&conns[id]);
      if (is889[id]) puts("ok");   /* the implicit ClientInit has already been processed */
      else puts(conns[id].cl->state == RFB_INITIALISATION ? "ok" : "hs-failed");
    } else if (!strcmp(tok[0], "init") && n == 3) {
      int id = atoi(tok[1]); unsigned char sh = (unsigned char)atoi(tok[2]);
      if (!live(id) || !hsdone[id] || conns[id].cl->state != RFB_INITIALISATION) { puts("bad-op"); continue; }
      vh_send(&conns[id], &sh, 1);
      rfbProcessClientMessage(conns[id].cl);
      puts("ok");
    } else if (!strcmp(tok[0], "close") && n == 2) {
      int id = atoi(tok[1]);
      if (!live(id)) { puts("bad-op"); continue; }
      close(conns[id].peer); conns[id].peer = -1;
      rfbProcessClientMessage(conns[id].cl);   /* read returns 0 -> rfbCloseClient */
      puts("ok");
    } else if (!strcmp(tok[0], "reap") && n == 1) {
      rfbProcessEvents(scr, 0);
      puts("ok");
    } else if (!strcmp(tok[0], "state") && n == 1) {
      int id, first = 1;
      for (id = 0; id < MAXC; id++) {
        if (!used[id]) continue;
        if (!first) putchar(' ');
        first = 0;
        if (!conns[id].cl) printf("%d:gone", id);
        else printf("%d:%s:%s:%s", id, conns[id].cl->sock != RFB_INVALID_SOCKET ? "open" : "closed",
                    conns[id].cl->state == RFB_NORMAL ? "normal" : "hs",
                    conns[id].cl->reverseConnection ? "r" : "i");
      }
      putchar('\n');
    } else puts("bad-op");
    fflush(stdout);
  }
  return 0;
}
