/* C14 harness: shared / non-shared session policy on the real server code.
 * ops: cfg a n d | conn id rev | hs id | init id shared | close id | reap | state
 * One observation line per op (see Driver/C14.lean for the model side). */
#include "sess.h"

#define MAXC 64
static vh_conn conns[MAXC];
static int used[MAXC], hsdone[MAXC], is889[MAXC];
static rfbScreenInfoPtr scr;

static int live(int id) {
  return id >= 0 && id < MAXC && used[id] && conns[id].cl && conns[id].cl->sock != RFB_INVALID_SOCKET;
}

int main(void) {
  char *line, *tok[16];
  scr = vh_screen(16, 8, 4);
  if (!scr) { fprintf(stderr, "no screen\n"); return 2; }
  while ((line = vh_readline())) {
    int n = vh_split(line, tok, 16);
    if (n == 0 || tok[0][0] == '#') continue;
    if (!strcmp(tok[0], "cfg") && n == 4) {
      scr->alwaysShared = atoi(tok[1]); scr->neverShared = atoi(tok[2]); scr->dontDisconnect = atoi(tok[3]);
      puts("ok");
    } else if (!strcmp(tok[0], "args") && n >= 1) {
      /* command-line configuration path: rfbProcessArguments (cargs.c) on the live screen */
      char *argv[18]; int argc = n, i;
      argv[0] = (char *)"verif";
      for (i = 1; i < n && i < 17; i++) argv[i] = tok[i];
      argv[argc] = NULL;
      rfbProcessArguments(scr, &argc, argv);
      puts("ok");
    } else if ((!strcmp(tok[0], "conn") || !strcmp(tok[0], "conn889")) && n == 3) {
      int id = atoi(tok[1]);
      if (id < 0 || id >= MAXC || used[id]) { puts("bad-op"); continue; }
      used[id] = 1;
      /* "RFB 003.889": the Mac OS X client, which never sends ClientInit (implicit shared flag) */
      is889[id] = tok[0][4] == '8';
      vh_connect_pre(scr, &conns[id], is889[id] ? "RFB 003.889\n" : "RFB 003.008\n", 12);
      if (conns[id].cl && atoi(tok[2])) conns[id].cl->reverseConnection = TRUE; /* as rfbReverseConnection does */
      puts("ok");
    } else if (!strcmp(tok[0], "hs") && n == 2) {
      int id = atoi(tok[1]); unsigned char one = 1;
      if (!live(id) || hsdone[id]) { puts("bad-op"); continue; }
      hsdone[id] = 1;
      if (conns[id].cl->state == RFB_PROTOCOL_VERSION) rfbProcessClientMessage(conns[id].cl);
      vh_send(&conns[id], &one, 1);
      rfbProcessClientMessage(conns[id].cl);
      vh_drain(&conns[id]);
      if (is889[id]) puts("ok");   /* the implicit ClientInit has already been processed */
      else puts(conns[id].cl->state == RFB_INITIALISATION ? "ok" : "hs-failed");
    } else if (!strcmp(tok[0], "init") && n == 3) {
      int id = atoi(tok[1]); unsigned char sh = (unsigned char)atoi(tok[2]);
      if (!live(id) || !hsdone[id] || conns[id].cl->state != RFB_INITIALISATION) { puts("bad-op"); continue; }
      vh_send(&conns[id], &sh, 1);
      rfbProcessClientMessage(conns[id].cl);
      puts("ok");
    } else if (!strcmp(tok[0], "close") && n == 2) {
      int id = atoi(tok[1]);
      if (!live(id)) { puts("bad-op"); continue; }
      close(conns[id].peer); conns[id].peer = -1;
      rfbProcessClientMessage(conns[id].cl);   /* read returns 0 -> rfbCloseClient */
      puts("ok");
    } else if (!strcmp(tok[0], "reap") && n == 1) {
      rfbProcessEvents(scr, 0);
      puts("ok");
    } else if (!strcmp(tok[0], "state") && n == 1) {
      int id, first = 1;
      for (id = 0; id < MAXC; id++) {
        if (!used[id]) continue;
        if (!first) putchar(' ');
        first = 0;
        if (!conns[id].cl) printf("%d:gone", id);
        else printf("%d:%s:%s", id, conns[id].cl->sock != RFB_INVALID_SOCKET ? "open" : "closed",
                    conns[id].cl->state == RFB_NORMAL ? "normal" : "hs");
      }
      putchar('\n');
    } else puts("bad-op");
    fflush(stdout);
  }
  return 0;
}
