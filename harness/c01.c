/* C01 harness: the real encoders of libvncserver on a real screen, one client over a socketpair.
 *
 * ops (one per line; every op answers with zero or more info lines and a final line "."):
 *   screen W H BYTESPP            create the screen (once)
 *   client                        connect one client, handshake (security None, shared)
 *   fmt bpp depth be tc rmax gmax bmax rs gs bs     client sends SetPixelFormat
 *   enc e1 e2 ...                 client sends SetEncodings (signed 32-bit numbers)
 *   paint KIND SEED x y w h a b   write generated content into the framebuffer (no marking)
 *   mark x y w h                  rfbMarkRectAsModified
 *   newfb BYTESPP                 rfbNewFramebuffer: same size, new pixel format -> "srvfmt ..." line
 *   req incr x y w h              client sends FramebufferUpdateRequest; event loop runs until idle
 *   cfg corre W H                 cl->correMaxWidth/Height (library API field)
 *   unlzo OUTLEN HEX              LZO1X-decompress with the repository's minilzo (trusted codec)
 *   unjpeg HEX                    decode a JPEG image with libjpeg (trusted codec) -> "rgb w h HEX"
 * info lines:
 *   snap x y w h HEX              (from the pre-encode hook) the pixels of one rectangle of the update
 *                                 region, converted to the client's format with cl->translateFn
 *                                 called by the harness on the whole rectangle
 *   sraw x y w h HEX              the same rectangle in the server's format (raw framebuffer bytes)
 *   out HEX                       everything the server wrote to the socket during this op
 */
#include "sess.h"
#include <rfb/rfbregion.h>
#include <jpeglib.h>
#include <setjmp.h>
#include <sys/resource.h>
#include "minilzo.h"

extern void (*rfbVerifPreEncodeHook)(rfbClientPtr, sraRegionPtr, sraRegionPtr, int, int);

static rfbScreenInfoPtr scr;
static vh_conn conn;
static int have_client = 0;
static int want_sraw = 0;

static void hook(rfbClientPtr cl, sraRegionPtr upd, sraRegionPtr cpy, int dx, int dy) {
  sraRectangleIterator *it; sraRect r;
  int sbpp = cl->scaledScreen->bitsPerPixel / 8, cbpp = cl->format.bitsPerPixel / 8;
  (void)dx; (void)dy;
  if (!sraRgnEmpty(cpy)) puts("copyregion-nonempty");
  for (it = sraRgnGetIterator(upd); sraRgnIteratorNext(it, &r);) {
    int w = r.x2 - r.x1, h = r.y2 - r.y1;
    char *fbptr = cl->scaledScreen->frameBuffer + (size_t)cl->scaledScreen->paddedWidthInBytes * r.y1 + (size_t)r.x1 * sbpp;
    unsigned char *buf;
    if (w <= 0 || h <= 0) continue;
    buf = (unsigned char *)malloc((size_t)w * h * cbpp + 16);
    (*cl->translateFn)(cl->translateLookupTable, &cl->screen->serverFormat, &cl->format, fbptr,
                       (char *)buf, cl->scaledScreen->paddedWidthInBytes, w, h);
    printf("snap %d %d %d %d ", r.x1, r.y1, w, h);
    vh_puthex(stdout, buf, (size_t)w * h * cbpp);
    putchar('\n');
    free(buf);
    if (want_sraw) {
      int yy;
      printf("sraw %d %d %d %d ", r.x1, r.y1, w, h);
      for (yy = 0; yy < h; yy++)
        vh_puthex(stdout, (unsigned char *)fbptr + (size_t)yy * cl->scaledScreen->paddedWidthInBytes, (size_t)w * sbpp);
      putchar('\n');
    }
  }
  sraRgnReleaseIterator(it);
}

static void pump_out(void) {
  vh_conn *arr[1]; arr[0] = &conn;
  vh_pump(scr, arr, 1);
  printf("out ");
  vh_puthex(stdout, conn.out.p, conn.out.n);
  putchar('\n');
  vh_buf_reset(&conn.out);
}

static void put16(unsigned char *p, unsigned v) { p[0] = (unsigned char)(v >> 8); p[1] = (unsigned char)v; }
static void put32(unsigned char *p, uint32_t v) { p[0] = v >> 24; p[1] = v >> 16; p[2] = v >> 8; p[3] = v; }

/* ---- content generators (server pixel = `sb` bytes, little-endian host) ---- */
static uint32_t pixmask(int sb) { return sb == 4 ? 0x00FFFFFFu : sb == 2 ? 0xFFFFu : 0xFFu; }
static void setpx(int x, int y, uint32_t v) {
  int sb = scr->bitsPerPixel / 8;
  unsigned char *p = (unsigned char *)scr->frameBuffer + (size_t)y * scr->paddedWidthInBytes + (size_t)x * sb;
  if (x < 0 || y < 0 || x >= scr->width || y >= scr->height) return;
  if (sb == 4) { uint32_t t = v; memcpy(p, &t, 4); }
  else if (sb == 2) { uint16_t t = (uint16_t)v; memcpy(p, &t, 2); }
  else p[0] = (unsigned char)v;
}

static void paint(const char *kind, uint64_t seed, int x0, int y0, int w, int h, long a, long b) {
  int sb = scr->bitsPerPixel / 8, x, y;
  uint32_t m = pixmask(sb), pal[256];
  int i, n;
  vh_srand(seed);
  /* a = number of colours (where applicable), b = flag bits: 1 = garbage in the unused top byte
     (32 bpp only) */
  n = (int)(a < 1 ? 1 : a > 256 ? 256 : a);
  for (i = 0; i < 256; i++) pal[i] = (uint32_t)vh_rand() & m;
  /* make sure palette entries are distinct */
  for (i = 1; i < n; i++) { int j, again = 1; while (again) { again = 0; for (j = 0; j < i; j++) if (pal[j] == pal[i]) { pal[i] = (uint32_t)vh_rand() & m; again = 1; } } }
#define TOP ((b & 1) && sb == 4 ? ((uint32_t)vh_rand() << 24) : 0u)
  if (!strcmp(kind, "flat")) {
    for (y = 0; y < h; y++) for (x = 0; x < w; x++) setpx(x0 + x, y0 + y, pal[0] | TOP);
  } else if (!strcmp(kind, "pal")) {          /* n colours, independent per pixel */
    for (y = 0; y < h; y++) for (x = 0; x < w; x++) setpx(x0 + x, y0 + y, pal[vh_rand() % n] | TOP);
  } else if (!strcmp(kind, "runs")) {         /* n colours, runs of random length crossing rows/tiles */
    uint32_t c = pal[0]; long left = 0; long maxrun = (b >> 4) > 0 ? (b >> 4) : 40;
    for (y = 0; y < h; y++) for (x = 0; x < w; x++) {
      if (left == 0) { c = pal[vh_rand() % n]; left = 1 + (long)(vh_rand() % maxrun); }
      setpx(x0 + x, y0 + y, c | TOP); left--;
    }
  } else if (!strcmp(kind, "runsx")) {        /* runs whose lengths sit on the run-length coding limits */
    static const long lens[] = { 1, 2, 3, 254, 255, 256, 257, 509, 510, 511, 512, 766 };
    uint32_t c = pal[0]; long left = 0; int k = 0;
    for (y = 0; y < h; y++) for (x = 0; x < w; x++) {
      if (left == 0) { k++; c = pal[k % n]; left = lens[vh_rand() % (sizeof lens / sizeof lens[0])]; }
      setpx(x0 + x, y0 + y, c | TOP); left--;
    }
  } else if (!strcmp(kind, "edge127")) {      /* exactly 127 colours; the 127th first appears in the last run
                                                 (b>>4 == 0) or in the last but one (b>>4 == 1) */
    long total = (long)w * h, i2 = 0, tail = 3 + ((b >> 4) & 1) * 2;
    for (y = 0; y < h; y++) for (x = 0; x < w; x++, i2++) {
      uint32_t v;
      if (i2 < 126) v = pal[i2];                              /* 126 colours, one pixel each */
      else if (i2 < total - tail) v = pal[(i2 * 7) % 126];
      else if (i2 < total - tail + 3) v = pal[126];            /* the 127th colour, a run of 3 */
      else v = pal[5];                                         /* one more run after it */
      setpx(x0 + x, y0 + y, v | TOP);
    }
  } else if (!strcmp(kind, "vruns")) {        /* column-wise runs */
    uint32_t c = pal[0]; long left = 0;
    for (x = 0; x < w; x++) for (y = 0; y < h; y++) {
      if (left == 0) { c = pal[vh_rand() % n]; left = 1 + (long)(vh_rand() % 40); }
      setpx(x0 + x, y0 + y, c | TOP); left--;
    }
  } else if (!strcmp(kind, "blocks")) {       /* background + random flat rectangles */
    int k, nb = (int)((b >> 4) > 0 ? (b >> 4) : 12);
    for (y = 0; y < h; y++) for (x = 0; x < w; x++) setpx(x0 + x, y0 + y, pal[0] | TOP);
    for (k = 0; k < nb; k++) {
      int bx = (int)(vh_rand() % (unsigned)w), by = (int)(vh_rand() % (unsigned)h);
      int bw = 1 + (int)(vh_rand() % 40), bh = 1 + (int)(vh_rand() % 40);
      uint32_t c = pal[vh_rand() % n];
      for (y = by; y < by + bh && y < h; y++) for (x = bx; x < bx + bw && x < w; x++) setpx(x0 + x, y0 + y, c | TOP);
    }
  } else if (!strcmp(kind, "tiles")) {        /* every T x T tile gets its own style; colours come from a
                                                 small shared palette so that backgrounds/foregrounds repeat from
                                                 tile to tile (encoder state across tiles) */
    int T = (int)((b >> 4) > 0 ? (b >> 4) : 16), tx, ty;
    for (ty = 0; ty < h; ty += T) for (tx = 0; tx < w; tx += T) {
      static const int cyc[] = { 1, 2, 1, 4, 1, 0, 3, 2, 3, 5, 1, 1, 2, 0, 1 };
      static int cycpos = 0;
      int style = (int)(vh_rand() % 6);
      uint32_t c0 = pal[vh_rand() % n], c1 = pal[vh_rand() % n];
      if (b & 2) {   /* deterministic cycle of styles over two fixed colours: encoder state transitions
                        mono -> raw -> mono (same fg), mono -> coloured -> mono, solid in between, ... */
        style = cyc[cycpos++ % (int)(sizeof cyc / sizeof cyc[0])];
        c0 = pal[0]; c1 = pal[n > 1 ? 1 : 0];
      }
      for (y = ty; y < ty + T && y < h; y++) for (x = tx; x < tx + T && x < w; x++) {
        uint32_t v;
        switch (style) {
          case 0: v = c0; break;                                         /* flat */
          case 1: v = (vh_rand() % 4) ? c0 : c1; break;                  /* two colours, c0 prevalent */
          case 2: v = (uint32_t)vh_rand() & m; break;                    /* noise -> raw tile */
          case 3: v = ((x / 3 + y / 2) & 1) ? c0 : c1; break;            /* regular two-colour pattern */
          case 4: v = pal[(x / 2 + y) % n]; break;                       /* many colours, structured */
          default: v = (y & 1) ? c0 : pal[x % n]; break;                 /* runs + palette */
        }
        setpx(x0 + x, y0 + y, v | TOP);
      }
    }
  } else if (!strcmp(kind, "flat16")) {       /* every 16x16 block (aligned to x0,y0) flat, all blocks different;
                                                 the first ones are pure red, green, blue, black, white: the
                                                 content for the derived JPEG bound and the channel order */
    int nbx = (w + 15) / 16;
    if (sb == 4) { pal[0] = 0x0000FF; pal[1] = 0x00FF00; pal[2] = 0xFF0000; pal[3] = 0; pal[4] = 0xFFFFFF; }
    else if (sb == 2) { pal[0] = 0x001F; pal[1] = 0x03E0; pal[2] = 0x7C00; pal[3] = 0; pal[4] = 0x7FFF; }
    for (i = 5; i < 256; i++) { int j, again = 1; while (again) { again = 0; for (j = 0; j < i; j++) if (pal[j] == pal[i]) { pal[i] = (uint32_t)vh_rand() & m; again = 1; } } }
    for (y = 0; y < h; y++) for (x = 0; x < w; x++)
      setpx(x0 + x, y0 + y, pal[((y / 16) * nbx + (x / 16)) % 256] | TOP);
  } else if (!strcmp(kind, "outlier")) {      /* flat with a few single pixels */
    int k, nb = (int)((b >> 4) > 0 ? (b >> 4) : 3);
    for (y = 0; y < h; y++) for (x = 0; x < w; x++) setpx(x0 + x, y0 + y, pal[0] | TOP);
    for (k = 0; k < nb; k++) setpx(x0 + (int)(vh_rand() % (unsigned)w), y0 + (int)(vh_rand() % (unsigned)h), pal[1 + vh_rand() % (n > 1 ? n - 1 : 1)] | TOP);
  } else if (!strcmp(kind, "grad")) {         /* smooth gradient, direction from seed */
    int dir = (int)(seed % 3);
    for (y = 0; y < h; y++) for (x = 0; x < w; x++) {
      int t = dir == 0 ? x : dir == 1 ? y : x + y;
      uint32_t r = (uint32_t)(t * 3 + 7) & 0xFF, g = (uint32_t)(t * 2 + 40) & 0xFF, bl = (uint32_t)(255 - t) & 0xFF, v;
      if (sb == 4) v = r | (g << 8) | (bl << 16);
      else if (sb == 2) v = (r >> 3) | ((g >> 3) << 5) | ((bl >> 3) << 10);
      else v = (r >> 5) | ((g >> 5) << 3) | ((bl >> 6) << 6);
      setpx(x0 + x, y0 + y, v | TOP);
    }
  } else if (!strcmp(kind, "noise")) {
    for (y = 0; y < h; y++) for (x = 0; x < w; x++) setpx(x0 + x, y0 + y, ((uint32_t)vh_rand() & m) | TOP);
  } else if (!strcmp(kind, "photo")) {        /* smooth 2-D field + small noise: typical JPEG content */
    for (y = 0; y < h; y++) for (x = 0; x < w; x++) {
      uint32_t r = (uint32_t)(128 + 100 * ((x * 7 + y * 3) % 64 - 32) / 32 + (int)(vh_rand() % 5)) & 0xFF;
      uint32_t g = (uint32_t)(128 + 90 * ((x * 2 + y * 5) % 96 - 48) / 48 + (int)(vh_rand() % 5)) & 0xFF;
      uint32_t bl = (uint32_t)(128 + 80 * ((x + y) % 50 - 25) / 25 + (int)(vh_rand() % 5)) & 0xFF, v;
      if (sb == 4) v = r | (g << 8) | (bl << 16);
      else if (sb == 2) v = (r >> 3) | ((g >> 3) << 5) | ((bl >> 3) << 10);
      else v = (r >> 5) | ((g >> 5) << 3) | ((bl >> 6) << 6);
      setpx(x0 + x, y0 + y, v | TOP);
    }
  }
}

/* ---- trusted still-image / LZO codecs for the python side ---- */
struct jerr { struct jpeg_error_mgr pub; jmp_buf jb; };
static void jerr_exit(j_common_ptr c) { struct jerr *e = (struct jerr *)c->err; longjmp(e->jb, 1); }

static void op_unjpeg(const char *hex) {
  size_t hl = strlen(hex); unsigned char *in = (unsigned char *)malloc(hl / 2 + 1);
  long n = vh_unhex(hex, in, hl / 2 + 1);
  struct jpeg_decompress_struct ci; struct jerr je; unsigned char *volatile out = NULL;
  if (n <= 0) { puts("err"); free(in); return; }
  ci.err = jpeg_std_error(&je.pub); je.pub.error_exit = jerr_exit;
  if (setjmp(je.jb)) { jpeg_destroy_decompress(&ci); puts("err"); free(in); free((void *)out); return; }
  jpeg_create_decompress(&ci);
  jpeg_mem_src(&ci, in, (unsigned long)n);
  jpeg_read_header(&ci, TRUE);
  ci.out_color_space = JCS_RGB;
  ci.do_fancy_upsampling = FALSE;   /* plain replication of sub-sampled chroma: a flat MCU stays flat */
  ci.dct_method = JDCT_ISLOW;
  jpeg_start_decompress(&ci);
  out = (unsigned char *)malloc((size_t)ci.output_width * ci.output_height * 3 + 1);
  while (ci.output_scanline < ci.output_height) {
    JSAMPROW row = out + (size_t)ci.output_scanline * ci.output_width * 3;
    jpeg_read_scanlines(&ci, &row, 1);
  }
  printf("rgb %u %u ", ci.output_width, ci.output_height);
  vh_puthex(stdout, out, (size_t)ci.output_width * ci.output_height * 3);
  putchar('\n');
  jpeg_finish_decompress(&ci); jpeg_destroy_decompress(&ci);
  free(in); free((void *)out);
}

static void op_unlzo(long outlen, const char *hex) {
  size_t hl = strlen(hex); unsigned char *in = (unsigned char *)malloc(hl / 2 + 1);
  long n = vh_unhex(hex, in, hl / 2 + 1);
  unsigned char *out = (unsigned char *)malloc((size_t)outlen + 16);
  lzo_uint ol = (lzo_uint)outlen; int rc;
  if (n < 0) { puts("err"); free(in); free(out); return; }
  rc = lzo1x_decompress_safe(in, (lzo_uint)n, out, &ol, NULL);
  if (rc != LZO_E_OK) printf("err %d\n", rc);
  else { printf("data "); vh_puthex(stdout, out, ol); putchar('\n'); }
  free(in); free(out);
}

#define MAXT 600
int main(void) {
  char *line; static char *tok[MAXT];
  { /* a spinning encoder must end the run by itself, whatever the load of the machine: CPU-time limit
       (the heaviest legitimate script needs a few seconds of CPU under ASan) -> SIGXCPU */
    struct rlimit rl; rl.rlim_cur = 40; rl.rlim_max = 45; setrlimit(RLIMIT_CPU, &rl); }
  rfbVerifPreEncodeHook = hook;
  while ((line = vh_readline())) {
    int n = vh_split(line, tok, MAXT);
    if (n == 0 || tok[0][0] == '#') continue;
    if (!strcmp(tok[0], "screen") && n == 4 && !scr) {
      int w = atoi(tok[1]), h = atoi(tok[2]), b = atoi(tok[3]);
      if (w < 1 || h < 1 || (b != 1 && b != 2 && b != 4)) puts("bad-op");
      else { scr = vh_screen(w, h, b); puts(scr ? "ok" : "no-screen"); }
    } else if (!strcmp(tok[0], "unlzo") && n == 3) {
      op_unlzo(atol(tok[1]), tok[2]);
    } else if (!strcmp(tok[0], "unjpeg") && n == 2) {
      op_unjpeg(tok[1]);
    } else if (!scr) {
      puts("bad-op");
    } else if (!strcmp(tok[0], "client") && n == 1 && !have_client) {
      vh_connect_pre(scr, &conn, "RFB 003.008\n", 12);
      if (vh_handshake_none(scr, &conn, 1) == 0) {
        rfbPixelFormat *f = &conn.cl->format;   /* = what ServerInit announced */
        have_client = 1;
        printf("fmtinfo %d %d %d %d %d %d %d %d %d %d\n", f->bitsPerPixel, f->depth, f->bigEndian ? 1 : 0,
               f->trueColour ? 1 : 0, f->redMax, f->greenMax, f->blueMax, f->redShift, f->greenShift, f->blueShift);
        puts("ok");
      } else puts("handshake-failed");
    } else if (!strcmp(tok[0], "sraw") && n == 2) {
      want_sraw = atoi(tok[1]); puts("ok");
    } else if (!strcmp(tok[0], "paint") && n == 9) {
      paint(tok[1], strtoull(tok[2], NULL, 10), atoi(tok[3]), atoi(tok[4]), atoi(tok[5]), atoi(tok[6]), atol(tok[7]), atol(tok[8]));
      puts("ok");
    } else if (!strcmp(tok[0], "newfb") && n == 2) {
      /* rfbNewFramebuffer in mid-session: same size, another pixel format (bytes per pixel) */
      int b = atoi(tok[1]); char *oldfb = scr->frameBuffer;
      if (b != 1 && b != 2 && b != 4) puts("bad-op");
      else {
        char *nfb = (char *)calloc((size_t)scr->width * scr->height, b);
        rfbPixelFormat *f;
        rfbNewFramebuffer(scr, nfb, scr->width, scr->height, b == 2 ? 5 : 8, b == 1 ? 1 : 3, b);
        free(oldfb);
        f = &scr->serverFormat;
        printf("srvfmt %d %d %d %d %d %d %d %d %d %d\n", f->bitsPerPixel, f->depth, f->bigEndian ? 1 : 0,
               f->trueColour ? 1 : 0, f->redMax, f->greenMax, f->blueMax, f->redShift, f->greenShift, f->blueShift);
        puts("ok");
      }
    } else if (!strcmp(tok[0], "mark") && n == 5) {
      int x = atoi(tok[1]), y = atoi(tok[2]), w = atoi(tok[3]), h = atoi(tok[4]);
      rfbMarkRectAsModified(scr, x, y, x + w, y + h); puts("ok");
    } else if (!have_client || !conn.cl || conn.cl->sock == RFB_INVALID_SOCKET) {
      puts(have_client ? "client-closed" : "bad-op");
    } else if (!strcmp(tok[0], "fmt") && n == 11) {
      unsigned char m[20]; memset(m, 0, sizeof m);
      m[0] = 0; m[4] = (unsigned char)atoi(tok[1]); m[5] = (unsigned char)atoi(tok[2]);
      m[6] = (unsigned char)atoi(tok[3]); m[7] = (unsigned char)atoi(tok[4]);
      put16(m + 8, (unsigned)atoi(tok[5])); put16(m + 10, (unsigned)atoi(tok[6])); put16(m + 12, (unsigned)atoi(tok[7]));
      m[14] = (unsigned char)atoi(tok[8]); m[15] = (unsigned char)atoi(tok[9]); m[16] = (unsigned char)atoi(tok[10]);
      vh_send(&conn, m, 20); pump_out();
    } else if (!strcmp(tok[0], "enc") && n >= 1) {
      unsigned char *m = (unsigned char *)malloc(4 + 4 * (size_t)n); int i;
      m[0] = 2; m[1] = 0; put16(m + 2, (unsigned)(n - 1));
      for (i = 1; i < n; i++) put32(m + 4 * i, (uint32_t)strtol(tok[i], NULL, 10));
      vh_send(&conn, m, 4 + 4 * (size_t)(n - 1)); free(m); pump_out();
    } else if (!strcmp(tok[0], "cfg") && n == 4 && !strcmp(tok[1], "corre")) {
      conn.cl->correMaxWidth = atoi(tok[2]); conn.cl->correMaxHeight = atoi(tok[3]); puts("ok");
    } else if (!strcmp(tok[0], "req") && n == 6) {
      unsigned char m[10];
      m[0] = 3; m[1] = (unsigned char)atoi(tok[1]);
      put16(m + 2, (unsigned)atoi(tok[2])); put16(m + 4, (unsigned)atoi(tok[3]));
      put16(m + 6, (unsigned)atoi(tok[4])); put16(m + 8, (unsigned)atoi(tok[5]));
      vh_send(&conn, m, 10); pump_out();
      if (!conn.cl || conn.cl->sock == RFB_INVALID_SOCKET) puts("client-closed");
    } else puts("bad-op");
    puts(".");
    fflush(stdout);
  }
  return 0;
}
