/* C05 harness: VNC authentication on the real server code, several screens and connections in one
 * process (the security-handler list in auth.c is process-global), plus a DES stream that calls the
 * crypto back-end compiled into this build.
 *
 * Everything a client does is "send bytes"; the server interprets them according to the state of
 * the connection.  After every write the harness calls rfbProcessClientMessage as long as the
 * message the current state expects is completely available (so no call ever blocks), which is what
 * the select loop of rfbProcessEvents does with a well-behaved peer.  `proc` forces one call (a short
 * message then runs into the 100 ms read timeout and the server closes the connection).
 *
 * The challenge comes from rfbRandomBytes -> random(); random() is interposed here and returns the
 * 16 bytes given by the last `rand` op, so scripts are deterministic and the model can be compared
 * byte for byte.  The harness never computes a response itself: responses are bytes in the script
 * (computed by the generator with its own DES).
 *
 * ops (one observation line each; see Driver/C05.lean for the model side)
 *   screen <sid> none <si>                       password-less screen (si: ServerInit bytes, model only)
 *   screen <sid> list <firstViewOnly> <si> <pwhex>...   rfbCheckPasswordByList
 *   screen <sid> file <si> <filehex|missing>     rfbDefaultPasswordCheck, raw password-file content
 *   mode fixed|unfixed                           (model only)
 *   cryptofail <0|1>                             fault injection: gcry_cipher_open fails from now on
 *   rand <32 hex>                                next challenge(s)
 *   conn <cid> <sid> <rev> <prehex|->            new connection; pre = bytes already sent by the peer
 *   rconn <cid> <sid> <mode> <prehex|->           the REAL rfbReverseConnection (1: viewer listens, 0/2: connect fails)
 *   send <cid> <hex> | sendnp <cid> <hex> | proc <cid> | close <cid> | state
 *   des <key16hex> <hex> | refdes <key16hex> <hex> | encb <pwhex> <32hex> | store <pwhex> | load <filehex>
 *   ext <type> | unext <type>                    application security handler (writes "EXT!" and closes)
 *   tight <0|1>                                  (un)register the TightVNC file-transfer extension (type 16)
 */
#include "sess.h"
#include <openssl/des.h>
#include <signal.h>
#include "crypto.h"
#include <dlfcn.h>
#include <gcrypt.h>
#include <netinet/in.h>
#include <arpa/inet.h>
#include <netinet/tcp.h>

extern rfbProtocolExtension tightVncFileTransferExtension;   /* tightvnc-filetransfer/rfbtightserver.c */

#define MAXS 8
#define MAXC 64
#define MAXPW 16

static rfbScreenInfoPtr scr[MAXS];
static char *pwlist[MAXS][MAXPW + 1];
static char *pwfile[MAXS];
static vh_conn conns[MAXC];
static int used[MAXC], nscr;
static long capsbytes[MAXC];     /* TightVNC interaction caps written after ServerInit (content not compared) */
static int tightreg;
static int istcp[MAXC];            /* connection made by the real rfbReverseConnection over loopback TCP */
static char tmpdir[64];

/* ---- deterministic random source for rfbRandomBytes ------------------------------------------ */
static unsigned char randbuf[16];
static unsigned randpos;
long random(void) { return (long)randbuf[randpos++ % 16] + 256L * 5; }
void srandom(unsigned s) { (void)s; }

/* ---- fault injection: the crypto back-end cannot provide a cipher (e.g. DES disabled in FIPS mode) */
static int cryptofail;
gcry_error_t gcry_cipher_open(gcry_cipher_hd_t *hd, int algo, int mode, unsigned int flags) {
  static gcry_error_t (*real)(gcry_cipher_hd_t *, int, int, unsigned int);
  if (!real) real = (gcry_error_t (*)(gcry_cipher_hd_t *, int, int, unsigned int))dlsym(RTLD_NEXT, "gcry_cipher_open");
  if (cryptofail) { *hd = NULL; return gcry_error(GPG_ERR_CIPHER_ALGO); }
  return real(hd, algo, mode, flags);
}

/* ---- the listening viewer rfbReverseConnection connects to ------------------------------------
 * A loopback TCP listener owned by the harness.  connect() is interposed only to play the viewer's
 * part at the right moment: when the library's connect() to the listener has succeeded, the harness
 * accepts the connection and writes the viewer's first bytes at once, so that they are there when
 * rfbNewClient peeks for a WebSocket greeting (otherwise every reverse connection costs a 100 ms wait).
 * A reverse connection that is to FAIL goes to a loopback port nobody listens on (real ECONNREFUSED). */
static int listen_fd = -1, listen_port, dead_port;
static int rc_armed, rc_accepted = -1;
static unsigned char rc_pre[64]; static size_t rc_prelen;

static void open_listener(void) {
  struct sockaddr_in a; socklen_t l = sizeof a; int fd;
  if (listen_fd >= 0) return;
  memset(&a, 0, sizeof a); a.sin_family = AF_INET; a.sin_addr.s_addr = htonl(INADDR_LOOPBACK);
  listen_fd = socket(AF_INET, SOCK_STREAM, 0);
  if (listen_fd < 0 || bind(listen_fd, (struct sockaddr *)&a, sizeof a) < 0 || listen(listen_fd, 16) < 0 ||
      getsockname(listen_fd, (struct sockaddr *)&a, &l) < 0) { perror("listener"); exit(2); }
  listen_port = ntohs(a.sin_port);
  /* a port that refuses connections: bind one, note its number, close it */
  memset(&a, 0, sizeof a); a.sin_family = AF_INET; a.sin_addr.s_addr = htonl(INADDR_LOOPBACK); l = sizeof a;
  fd = socket(AF_INET, SOCK_STREAM, 0);
  if (fd < 0 || bind(fd, (struct sockaddr *)&a, sizeof a) < 0 || getsockname(fd, (struct sockaddr *)&a, &l) < 0) { perror("deadport"); exit(2); }
  dead_port = ntohs(a.sin_port);
  close(fd);
}

int connect(int fd, const struct sockaddr *addr, socklen_t len) {
  static int (*real)(int, const struct sockaddr *, socklen_t);
  int r;
  if (!real) real = (int (*)(int, const struct sockaddr *, socklen_t))dlsym(RTLD_NEXT, "connect");
  r = real(fd, addr, len);
  if (rc_armed && addr && addr->sa_family == AF_INET &&
      ntohs(((const struct sockaddr_in *)addr)->sin_port) == listen_port) {
    int e = errno;
    if (r < 0 && (e == EINPROGRESS || e == EWOULDBLOCK)) {
      struct pollfd pf; int soerr = 0; socklen_t sl = sizeof soerr;
      pf.fd = fd; pf.events = POLLOUT;
      if (poll(&pf, 1, 2000) == 1 && getsockopt(fd, SOL_SOCKET, SO_ERROR, &soerr, &sl) == 0 && soerr == 0) r = 0;
      else { errno = soerr ? soerr : ETIMEDOUT; return -1; }
    }
    if (r == 0) {
      rc_armed = 0;
      rc_accepted = accept(listen_fd, NULL, NULL);
      if (rc_accepted >= 0) {
        int one = 1;
        fcntl(rc_accepted, F_SETFL, fcntl(rc_accepted, F_GETFL) | O_NONBLOCK);
        setsockopt(rc_accepted, IPPROTO_TCP, TCP_NODELAY, &one, sizeof one);   /* no Nagle delay for small writes */
        if (rc_prelen) { ssize_t w = write(rc_accepted, rc_pre, rc_prelen); (void)w; }
      }
    } else errno = e;
  }
  return r;
}

/* loopback TCP: give bytes in flight a moment to arrive */
static void settle(int fd) { struct pollfd pf; pf.fd = fd; pf.events = POLLIN; if (fd >= 0) poll(&pf, 1, 3); }

static const char *stname(int st) {
  switch (st) {
  case RFB_PROTOCOL_VERSION: return "ver";
  case RFB_SECURITY_TYPE: return "sec";
  case RFB_AUTHENTICATION: return "auth";
  case RFB_INITIALISATION: return "init";
  case RFB_INITIALISATION_SHARED: return "initsh";
  case RFB_NORMAL: return "normal";
  default: return "other";
  }
}

static int isopen(int id) { return conns[id].cl && conns[id].cl->sock != RFB_INVALID_SOCKET; }

static int need(int st) {
  switch (st) {
  case RFB_PROTOCOL_VERSION: return sz_rfbProtocolVersionMsg;
  case RFB_SECURITY_TYPE: return 1;
  case RFB_AUTHENTICATION: return CHALLENGESIZE;
  case RFB_INITIALISATION: return sz_rfbClientInitMsg;
  default: return -1;
  }
}

static int has_tight(rfbClientPtr cl) {
  rfbExtensionData *e;
  for (e = cl->extensions; e; e = e->next) if (e->extension == &tightVncFileTransferExtension) return 1;
  return 0;
}

/* one rfbProcessClientMessage.  For a client that enabled the TightVNC extension the ClientInit step
   writes ServerInit followed by rfbSendInteractionCaps' capability lists; for view-only clients (or with
   file transfer disabled) part of those lists is uninitialised stack memory, so only their length is
   observed (`caps=<n>`), the bytes are dropped here. */
static void process(int id) {
  vh_conn *c = &conns[id];
  int st0 = c->cl->state;
  size_t n0, silen;
  vh_drain(c);
  n0 = c->out.n;
  rfbProcessClientMessage(c->cl);
  if (istcp[id]) settle(c->peer);
  vh_drain(c);
  silen = sz_rfbServerInitMsg + strlen(c->cl->screen->desktopName);
  if (st0 == RFB_INITIALISATION && has_tight(c->cl) && c->out.n > n0 + silen) {
    capsbytes[id] += (long)(c->out.n - n0 - silen);
    c->out.n = n0 + silen;
  }
}

static void pump(int id) {
  int guard = 0;
  while (isopen(id) && guard++ < 64) {
    int nd = need(conns[id].cl->state);
    if (nd >= 0 && istcp[id]) {   /* loopback TCP: bytes just written may need a moment */
      int k; for (k = 0; k < 6 && vh_srv_pending(conns[id].cl->sock) < nd; k++) usleep(500);
    }
    if (nd < 0 || vh_srv_pending(conns[id].cl->sock) < nd) break;
    process(id);
  }
}

static void obs(int id) {
  vh_conn *c = &conns[id];
  if (istcp[id]) settle(c->peer);
  vh_drain(c);
  if (!c->cl) { printf("c%d gone out=", id); }
  else printf("c%d %s %s vo=%d out=", id, stname(c->cl->state), isopen(id) ? "open" : "closed",
              c->cl->viewOnly ? 1 : 0);
  vh_puthex(stdout, c->out.p, c->out.n);
  if (capsbytes[id]) { printf(" caps=%ld", capsbytes[id]); capsbytes[id] = 0; }
  putchar('\n');
  vh_buf_reset(&c->out);
}

static int cid_ok(const char *t) { int id = atoi(t); return id >= 0 && id < MAXC && used[id]; }

/* extension security handler for the compatibility test: answers with a marker and closes */
static void ext_handler(rfbClientPtr cl) {
  rfbWriteExact(cl, "EXT!", 4);
  rfbCloseClient(cl);
}
#define MAXEXT 256
static rfbSecurityHandler extHandlers[MAXEXT];
static int extUsed[MAXEXT];

static void ref_des(const unsigned char key[8], const unsigned char *in, unsigned char *out, size_t n) {
  DES_key_schedule ks; DES_cblock k; size_t i;
  memcpy(k, key, 8);
  DES_set_key_unchecked(&k, &ks);
  for (i = 0; i + 8 <= n; i += 8) DES_ecb_encrypt((const_DES_cblock *)(in + i), (DES_cblock *)(out + i), &ks, DES_ENCRYPT);
}

int main(void) {
  char *line, *tok[64];
  static unsigned char buf[1 << 16], buf2[1 << 16];
  signal(SIGPIPE, SIG_IGN);
  strcpy(tmpdir, "/tmp/vh-c05-XXXXXX");
  if (!mkdtemp(tmpdir)) { perror("mkdtemp"); return 2; }
  while ((line = vh_readline())) {
    int n = vh_split(line, tok, 64);
    if (n == 0 || tok[0][0] == '#') continue;
    if (!strcmp(tok[0], "screen") && n >= 4) {
      int sid = atoi(tok[1]); rfbScreenInfoPtr s;
      if (sid < 0 || sid >= MAXS || sid != nscr) { puts("bad-op"); goto next; }   /* screens in order 0,1,2.. */
      if (!strcmp(tok[2], "none") && n == 4) {
        s = vh_screen(16 + sid, 8, 4);
      } else if (!strcmp(tok[2], "list") && n >= 5 && n - 5 <= MAXPW) {
        int i, bad = 0;
        for (i = 5; i < n; i++) {
          long l = vh_unhex(tok[i], buf, sizeof buf);
          if (l < 0 || memchr(buf, 0, (size_t)l)) bad = 1;
        }
        if (bad) { puts("bad-op"); goto next; }
        s = vh_screen(16 + sid, 8, 4);
        for (i = 5; i < n; i++) {
          long l = vh_unhex(tok[i], buf, sizeof buf);
          pwlist[sid][i - 5] = (char *)calloc((size_t)l + 1, 1);
          memcpy(pwlist[sid][i - 5], buf, (size_t)l);
        }
        pwlist[sid][n - 5] = NULL;
        s->authPasswdData = (void *)pwlist[sid];
        s->passwordCheck = rfbCheckPasswordByList;
        s->authPasswdFirstViewOnly = atoi(tok[3]);
      } else if (!strcmp(tok[2], "file") && n == 5) {
        char path[128];
        long l = 0;
        if (strcmp(tok[4], "missing")) { l = vh_unhex(tok[4], buf, sizeof buf); if (l < 0) { puts("bad-op"); goto next; } }
        s = vh_screen(16 + sid, 8, 4);
        snprintf(path, sizeof path, "%s/pw%d", tmpdir, sid);
        if (strcmp(tok[4], "missing")) {
          FILE *f = fopen(path, "wb");
          if (!f) { perror("fopen"); return 2; }
          if (l) fwrite(buf, 1, (size_t)l, f);
          fclose(f);
        }
        pwfile[sid] = strdup(path);
        s->authPasswdData = pwfile[sid];     /* passwordCheck stays rfbDefaultPasswordCheck */
      } else { puts("bad-op"); goto next; }
      if (!s) { fprintf(stderr, "no screen\n"); return 2; }
      s->alwaysShared = TRUE;                /* keep C14's policy out of the picture */
      scr[sid] = s; nscr++;
      puts("ok");
    } else if (!strcmp(tok[0], "mode") && n == 2) {
      puts((!strcmp(tok[1], "fixed") || !strcmp(tok[1], "unfixed")) ? "ok" : "bad-op");  /* model only */
    } else if (!strcmp(tok[0], "cryptofail") && n == 2) {
      if (strcmp(tok[1], "0") && strcmp(tok[1], "1")) { puts("bad-op"); goto next; }
      cryptofail = tok[1][0] == '1';
      puts("ok");
    } else if (!strcmp(tok[0], "rand") && n == 2) {
      if (vh_unhex(tok[1], buf, sizeof buf) != 16) { puts("bad-op"); goto next; }
      memcpy(randbuf, buf, 16); randpos = 0;
      puts("ok");
    } else if (!strcmp(tok[0], "conn") && n == 5) {
      int id = atoi(tok[1]), sid = atoi(tok[2]);
      long l = vh_unhex(tok[4], buf, sizeof buf);
      if (id < 0 || id >= MAXC || used[id] || sid < 0 || sid >= MAXS || !scr[sid] || l < 0 ||
          (l > 0 && (l < 4 || memcmp(buf, "RFB ", 4)))) { puts("bad-op"); goto next; }
      used[id] = 1;
      vh_connect_pre(scr[sid], &conns[id], buf, (size_t)l);
      if (conns[id].cl && atoi(tok[3])) conns[id].cl->reverseConnection = TRUE;  /* rfbReverseConnection */
      pump(id);
      obs(id);
    } else if (!strcmp(tok[0], "rconn") && n == 5) {
      /* the application calls the REAL rfbReverseConnection: mode 1 = a viewer listens (loopback TCP),
         0 = nobody listens on that port (connection refused), 2 = port 0 */
      int id = atoi(tok[1]), sid = atoi(tok[2]), mode = atoi(tok[3]);
      long l = vh_unhex(tok[4], buf, sizeof buf);
      rfbClientPtr cl;
      if (id < 0 || id >= MAXC || used[id] || sid < 0 || sid >= MAXS || !scr[sid] || l < 0 || l > 64 ||
          mode < 0 || mode > 2 || (l > 0 && (l < 4 || memcmp(buf, "RFB ", 4)))) { puts("bad-op"); goto next; }
      open_listener();
      if (mode != 1) {
        cl = rfbReverseConnection(scr[sid], (char *)"127.0.0.1", mode == 0 ? dead_port : 0);
        if (cl) { fprintf(stderr, "reverse connection to a closed port succeeded\n"); return 2; }
        puts("rc-failed");
        goto next;
      }
      memcpy(rc_pre, buf, (size_t)l); rc_prelen = (size_t)l; rc_armed = 1; rc_accepted = -1;
      cl = rfbReverseConnection(scr[sid], (char *)"127.0.0.1", listen_port);
      rc_armed = 0;
      if (!cl || rc_accepted < 0) { fprintf(stderr, "reverse connection to the listening viewer failed\n"); return 2; }
      used[id] = 1; istcp[id] = 1;
      memset(&conns[id], 0, sizeof conns[id]);
      conns[id].cl = cl; conns[id].peer = rc_accepted; conns[id].srvfd = cl->sock;
      cl->clientData = &conns[id]; cl->clientGoneHook = vh_gone_hook;
      pump(id);
      obs(id);
    } else if ((!strcmp(tok[0], "send") || !strcmp(tok[0], "sendnp")) && n == 3) {
      int id = atoi(tok[1]); long l = vh_unhex(tok[2], buf, sizeof buf);
      if (!cid_ok(tok[1]) || l < 0) { puts("bad-op"); goto next; }
      if (conns[id].peer >= 0 && l > 0) { ssize_t w = write(conns[id].peer, buf, (size_t)l); (void)w; }
      if (tok[0][4] == 0) pump(id);
      obs(id);
    } else if (!strcmp(tok[0], "proc") && n == 2) {
      int id = atoi(tok[1]);
      if (!cid_ok(tok[1])) { puts("bad-op"); goto next; }
      if (isopen(id) && need(conns[id].cl->state) >= 0) process(id);
      obs(id);
    } else if (!strcmp(tok[0], "close") && n == 2) {
      int id = atoi(tok[1]);
      if (!cid_ok(tok[1])) { puts("bad-op"); goto next; }
      if (conns[id].peer >= 0) { vh_drain(&conns[id]); close(conns[id].peer); conns[id].peer = -1; }
      obs(id);
    } else if (!strcmp(tok[0], "state") && n == 1) {
      int id, first = 1;
      for (id = 0; id < MAXC; id++) {
        if (!used[id]) continue;
        if (!first) putchar(' ');
        first = 0;
        if (!conns[id].cl) printf("%d:gone", id);
        else printf("%d:%s:%s:%d", id, stname(conns[id].cl->state), isopen(id) ? "open" : "closed",
                    conns[id].cl->viewOnly ? 1 : 0);
      }
      if (first) putchar('-');
      putchar('\n');
    } else if ((!strcmp(tok[0], "des") || !strcmp(tok[0], "refdes") || !strcmp(tok[0], "undes")) && n == 3) {
      unsigned char key[8]; int outlen = 0, rc;
      long l;
      if (vh_unhex(tok[1], key, 8) != 8) { puts("bad-op"); goto next; }
      l = vh_unhex(tok[2], buf, 4096);
      if (l < 0 || l % 8) { puts("bad-op"); goto next; }
      memcpy(buf2, buf, (size_t)l);
      if (!strcmp(tok[0], "des")) {           /* encrypt_rfbdes munges (bit-reverses) the key itself */
        rc = encrypt_rfbdes(buf2, &outlen, key, buf, (size_t)l);
        printf("%d ", rc);
      } else if (!strcmp(tok[0], "undes")) {
        rc = decrypt_rfbdes(buf2, &outlen, key, buf, (size_t)l);
        printf("%d ", rc);
      } else {                                /* OpenSSL, plain DES key (no munging) */
        ref_des(key, buf, buf2, (size_t)l);
      }
      vh_puthex(stdout, buf2, (size_t)l); putchar('\n');
    } else if (!strcmp(tok[0], "encb") && n == 3) {
      long l = vh_unhex(tok[1], buf, 4096);
      unsigned char ch[CHALLENGESIZE];
      if (l < 0 || memchr(buf, 0, (size_t)l) || vh_unhex(tok[2], ch, sizeof ch) != CHALLENGESIZE) { puts("bad-op"); goto next; }
      buf[l] = 0;
      rfbEncryptBytes(ch, (char *)buf);
      vh_puthex(stdout, ch, CHALLENGESIZE); putchar('\n');
    } else if (!strcmp(tok[0], "store") && n == 2) {
      char path[128]; FILE *f; size_t r;
      long l = vh_unhex(tok[1], buf, 4096);
      if (l < 0 || memchr(buf, 0, (size_t)l)) { puts("bad-op"); goto next; }
      buf[l] = 0;
      snprintf(path, sizeof path, "%s/store", tmpdir);
      unlink(path);
      if (rfbEncryptAndStorePasswd((char *)buf, path) != 0) fputs("store-failed ", stdout);
      f = fopen(path, "rb");
      if (!f) { puts("nofile"); goto next; }
      r = fread(buf2, 1, 64, f); fclose(f);
      vh_puthex(stdout, buf2, r); putchar('\n');
    } else if (!strcmp(tok[0], "load") && n == 2) {
      char path[128], *pw; FILE *f;
      long l = vh_unhex(tok[1], buf, 4096);
      if (l < 0) { puts("bad-op"); goto next; }
      snprintf(path, sizeof path, "%s/load", tmpdir);
      f = fopen(path, "wb"); if (!f) { perror("fopen"); return 2; }
      if (l) fwrite(buf, 1, (size_t)l, f);
      fclose(f);
      pw = rfbDecryptPasswdFromFile(path);
      if (!pw) puts("null");
      else { vh_puthex(stdout, (unsigned char *)pw, strlen(pw)); putchar('\n'); free(pw); }
    } else if ((!strcmp(tok[0], "ext") || !strcmp(tok[0], "unext")) && n == 2) {
      /* The application's handler structs live as long as the process, one per type, and the harness never
         touches their `next` field: registering a struct again, registering one that is already linked and
         unregistering one that is not registered are all passed to the library as they are. */
      int t = atoi(tok[1]);
      if (t < 0 || t > 255 || tok[1][0] < '0' || tok[1][0] > '9') { puts("bad-op"); goto next; }
      if (!extUsed[t]) { extHandlers[t].type = (uint8_t)t; extHandlers[t].handler = ext_handler; extHandlers[t].next = NULL; extUsed[t] = 1; }
      if (tok[0][0] == 'e') rfbRegisterSecurityHandler(&extHandlers[t]);
      else rfbUnregisterSecurityHandler(&extHandlers[t]);
      puts("ok");
    } else if (!strcmp(tok[0], "tight") && n == 2 && (!strcmp(tok[1], "0") || !strcmp(tok[1], "1"))) {
      int on = tok[1][0] == '1';
      if (on == tightreg) { puts("bad-op"); goto next; }
      if (on) rfbRegisterTightVNCFileTransferExtension(); else rfbUnregisterTightVNCFileTransferExtension();
      tightreg = on;
      puts("ok");
    } else puts("bad-op");
  next:
    fflush(stdout);
  }
  { /* remove the temp dir */
    char cmd[160]; int i;
    for (i = 0; i < MAXS; i++) if (pwfile[i]) unlink(pwfile[i]);
    snprintf(cmd, sizeof cmd, "%s/store", tmpdir); unlink(cmd);
    snprintf(cmd, sizeof cmd, "%s/load", tmpdir); unlink(cmd);
    rmdir(tmpdir);
  }
  return 0;
}
