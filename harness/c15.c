/* C15 harness: soft cursor / cursor-shape handling on the real server code.
 *
 * A real rfbScreenInfo (8/16/32 bpp), cursors installed through rfbSetCursor (built by
 * rfbMakeXCursor / by hand as X, rich or alpha cursors), up to MAXC clients over socketpairs:
 *   raw   - no cursor-shape support, Raw encoding: the server paints the cursor into the
 *           framebuffer for the duration of the update
 *   x     - Raw + XCursor + PointerPos       rich - Raw + RichCursor + PointerPos
 * Every message is handed to rfbProcessClientMessage synchronously; `pump` runs one
 * rfbProcessEvents (one rfbSendFramebufferUpdate per client with something pending).
 *
 * ops (one per line)                                        observation
 *   screen w h bpp   (bpp = bytes per pixel: 1, 2, 3, 4)    ok
 *   draw x y w h seed      (paint + rfbMarkRectAsModified)  ok
 *   cursor none                                             ok
 *   cursor x  w h xh yh <src> <mask> fr fg fb br bg bb      ok   (bytes as given)
 *   cursor xs w h xh yh <src> <mask>                        ok   (rfbMakeXCursor from strings)
 *   cursor xm w h xh yh <src>                               ok   (rfbMakeXCursor, mask derived)
 *   cursor rich  w h xh yh <pix> <mask> fr fg fb br bg bb   ok
 *   cursor alpha w h xh yh <pix> <alpha> premult            ok   (mask by rfbMakeMaskFromAlphaSource)
 *   client id raw|x|rich [f8|f8b|f16|f16b|f32|f32b]         ok   (SetPixelFormat; default: server's format)
 *   setenc id raw|x|rich|enc:<list>  (SetEncodings again)   ok   (list: raw,copyrect,x,rich,pos in sending order)
 *   copy x1 y1 x2 y2 dx dy  (rfbDoCopyRect, dest rectangle) ok
 *   scale id n   (SetScale 1/n; requests of that client are then in scaled coordinates;
 *                 scripts with `scale` are judged by the direct oracles only)           ok
 *   ptr id x y buttons                                      pos=X,Y pc=<id|-> moved=<id>:<b>,...
 *   req id incr x y w h                                     ok
 *   failnext id k       (k-th write from now on fails)      ok
 *   pump                                                    one line per client (+ oracle lines)
 *   dump fb|pic id                                          hex (debug only)
 *
 * pump line of a client that got an update:
 *   c<id> n=1 res=<0|1> before=<h> painted=<h> after=<h> cur=<x>,<y> ucl=<n>
 *         shape=<enc>:<xhot>,<yhot>,<w>,<h>:<payload hex>|-  pos=<x>,<y>|-  cov=<h> pic=<h>
 * before/painted/after: FNV-1a of the application framebuffer at displayHook /
 * rfbVerifPreEncodeHook / displayFinishedHook.  cov: hash of the bitmap of pixels received as Raw
 * rectangles in this pump; pic: hash of the client's decoded picture.
 * Direct oracle (independent of the Lean model, `oracle c<id> ...` lines): see oracle_client().
 */
#define _GNU_SOURCE
#include <dlfcn.h>
#include "sess.h"
#include <rfb/rfbregion.h>

extern void (*rfbVerifPreEncodeHook)(rfbClientPtr, sraRegionPtr, sraRegionPtr, int, int);

#define MAXC 4
static vh_conn conns[MAXC];
static int used[MAXC], kind[MAXC];       /* kind: 0 raw, 1 x, 2 rich */
static int fullreq[MAXC];                /* a request covering the whole screen is pending */
static unsigned char *pic[MAXC], *cov[MAXC], *ccov[MAXC];   /* cov: pixels got as Raw, ccov: as CopyRect */
/* the client's pixel format (SetPixelFormat); CB = its bytes per pixel; xl = differs from the server's */
typedef struct { const char *name; int bytes, depth, rm, gm, bm, rs, gs, bs; } vfmt;
static const vfmt FMTS[] = {
  { "f8", 1, 8, 7, 7, 3, 0, 3, 6 }, { "f8b", 1, 8, 7, 7, 3, 5, 2, 0 },
  { "f16", 2, 16, 31, 31, 31, 0, 5, 10 }, { "f16b", 2, 16, 31, 63, 31, 11, 5, 0 },
  { "f32", 4, 32, 255, 255, 255, 0, 8, 16 }, { "f32b", 4, 24, 255, 255, 255, 16, 8, 0 },
  { "f24", 3, 24, 255, 255, 255, 0, 8, 16 } };
static vfmt cfmt[MAXC]; static int CB[MAXC], xl[MAXC];
static rfbScreenInfoPtr scr;
static int W, H, BPP;
static int PW[MAXC], PH[MAXC];         /* size of client i's picture: W x H, or the scaled size after `scale` */

#define CURMAX 66000     /* largest bitmap / pixel array of a script's cursor, bytes */
/* the cursor as the SCRIPT gave it (for the direct oracle) */
static struct {
  int kind;            /* 0 none 1 x 2 xs 3 xm 4 rich 5 alpha */
  int w, h, xh, yh;
  unsigned char src[CURMAX], mask[CURMAX];
  unsigned char pix[CURMAX], alpha[CURMAX];
  int fr, fg, fb, br, bg, bb, premult;
} cur;

/* per-update observations, filled by the hooks */
static struct {
  int n, res; uint64_t before, painted, after; int cx, cy, ucl, bad_restore;
} st[MAXC];

/* ---------------------------------------------------------------- fault injection */
static int fail_fd = -1, fail_count = -1;
ssize_t write(int fd, const void *buf, size_t n) {
  static ssize_t (*real)(int, const void *, size_t);
  if (!real) real = (ssize_t (*)(int, const void *, size_t))dlsym(RTLD_NEXT, "write");
  if (fd == fail_fd && fail_fd >= 0 && fail_count >= 0) {
    if (fail_count == 0) { errno = EPIPE; return -1; }
    fail_count--;
  }
  return real(fd, buf, n);
}

/* ---------------------------------------------------------------- helpers */
static uint64_t fbhash(void) { return vh_fnv((unsigned char *)scr->frameBuffer, (size_t)W * H * BPP); }

static uint32_t pixval(uint32_t x, uint32_t y, uint32_t seed) {
  uint32_t v = (x * 73u + y * 151u + seed * 199u + x * y * 7u) * 2654435761u;
  v ^= v >> 15;
  if (BPP == 1) v &= 0xffu; else if (BPP == 2) v &= 0xffffu; else if (BPP == 3) v &= 0xffffffu;
  return v;
}
static uint32_t getpx(const unsigned char *base, int x, int y) {
  uint32_t v = 0; memcpy(&v, base + ((size_t)y * W + x) * BPP, BPP); return v;
}
static uint32_t getcpx(int id, int x, int y) {
  uint32_t v = 0; memcpy(&v, pic[id] + ((size_t)y * W + x) * CB[id], CB[id]); return v;
}
/* independent re-implementation of the RFB translation rule for one pixel (server -> client id) */
static uint32_t ref_translate(int id, uint32_t p) {
  rfbPixelFormat *f = &scr->serverFormat; const vfmt *c = &cfmt[id];
  uint32_t r = (p >> f->redShift) & f->redMax, g = (p >> f->greenShift) & f->greenMax, b = (p >> f->blueShift) & f->blueMax;
  r = (r * c->rm + f->redMax / 2) / f->redMax; g = (g * c->gm + f->greenMax / 2) / f->greenMax; b = (b * c->bm + f->blueMax / 2) / f->blueMax;
  return (r << c->rs) | (g << c->gs) | (b << c->bs);
}
static void setpx(unsigned char *base, int x, int y, uint32_t v) {
  memcpy(base + ((size_t)y * W + x) * BPP, &v, BPP);
}
static int idof(rfbClientPtr cl) {
  int i; for (i = 0; i < MAXC; i++) if (used[i] && conns[i].cl == cl) return i; return -1;
}
static int alive(int id) {
  return id >= 0 && id < MAXC && used[id] && conns[id].cl && conns[id].cl->sock != RFB_INVALID_SOCKET;
}

/* ---------------------------------------------------------------- hooks */
/* all server-side scaled copies of the framebuffer (screen->scaledScreenNext chain) */
static uint64_t scaledhash(void) {
  uint64_t h = 0x9e3779b97f4a7c15ull; rfbScreenInfoPtr p;
  for (p = scr->scaledScreenNext; p; p = p->scaledScreenNext)
    h = h * 1099511628211ull ^ vh_fnv((unsigned char *)p->frameBuffer, (size_t)p->paddedWidthInBytes * p->height);
  return h;
}
static uint64_t sbefore[MAXC], safter[MAXC];
static void hook_display(rfbClientPtr cl) {
  int i = idof(cl); if (i < 0) return;
  st[i].before = fbhash(); sbefore[i] = scaledhash();
}
static void hook_pre(rfbClientPtr cl, sraRegionPtr u, sraRegionPtr c, int dx, int dy) {
  int i = idof(cl); if (i < 0) return;
  st[i].n++; st[i].painted = fbhash(); st[i].cx = cl->cursorX; st[i].cy = cl->cursorY;
  st[i].ucl = scr->underCursorBufferLen;
}
static void hook_finished(rfbClientPtr cl, int result) {
  int i = idof(cl); if (i < 0) return;
  st[i].res = result ? 1 : 0; st[i].after = fbhash();   /* also runs when nothing had to be sent */
  safter[i] = scaledhash();
}

/* ---------------------------------------------------------------- reference composition */
static int bit_at(const unsigned char *bits, int w, int x, int y) {
  return (bits[y * ((w + 7) / 8) + x / 8] >> (7 - (x & 7))) & 1;
}
static uint32_t fmtmask(void) {
  rfbPixelFormat *f = &scr->serverFormat;
  return ((uint32_t)f->redMax << f->redShift) | ((uint32_t)f->greenMax << f->greenShift) |
         ((uint32_t)f->blueMax << f->blueShift);
}
static uint32_t colour(int r, int g, int b) {     /* 16-bit rgb -> server pixel, properly scaled */
  rfbPixelFormat *f = &scr->serverFormat;
  return ((uint32_t)((uint64_t)f->redMax * r / 0xffff) << f->redShift) |
         ((uint32_t)((uint64_t)f->greenMax * g / 0xffff) << f->greenShift) |
         ((uint32_t)((uint64_t)f->blueMax * b / 0xffff) << f->blueShift);
}
/* what pixel (x,y) of the client's picture must show when the pointer is at (px,py).
   returns 0: the reference leaves the value open (premultiplied alpha source overflowing a channel)
           1: compare (got ^ *want) & *cmpmask
           2: X-cursor colour: every channel of got must be the 16-bit colour rgb[] scaled to the
              channel's maximum, rounded down or up */
static int reference(int x, int y, int px, int py, uint32_t *want, uint32_t *cmpmask, int *rgb) {
  uint32_t under = getpx((unsigned char *)scr->frameBuffer, x, y);
  int u = x - (px - cur.xh), v = y - (py - cur.yh);
  *want = under; *cmpmask = 0xffffffffu;
  if (cur.kind == 0 || u < 0 || v < 0 || u >= cur.w || v >= cur.h) return 1;
  if (cur.kind == 5) {
    int a = cur.alpha[v * cur.w + u]; uint32_t p = 0;
    if (a == 0) return 1;
    memcpy(&p, cur.pix + ((size_t)v * cur.w + u) * BPP, BPP);
    { /* the blend, channel by channel, as the property states it (Props/C15.lean alpha_blend_spec):
         a*src/255 + (255-a)*dst/255, premultiplied sources: src + (255-a)*dst/255 */
      rfbPixelFormat *f = &scr->serverFormat; uint32_t out = 0; int k;
      int mx[3] = { f->redMax, f->greenMax, f->blueMax }, sh[3] = { f->redShift, f->greenShift, f->blueShift };
      for (k = 0; k < 3; k++) {
        uint32_t s = (p >> sh[k]) & mx[k], d = (under >> sh[k]) & mx[k];
        uint32_t c = (cur.premult ? s : (uint32_t)a * s / 255) + (uint32_t)(255 - a) * d / 255;
        if (c > (uint32_t)mx[k]) return 0;          /* premultiplied source overflowing a channel: left open */
        out |= c << sh[k];
      }
      *want = out; *cmpmask = fmtmask(); return 1;
    }
  }
  {
    const unsigned char *m = (cur.kind == 3) ? scr->cursor->mask : cur.mask;  /* xm: library-derived mask */
    if (!bit_at(m, cur.w, u, v)) return 1;
  }
  if (cur.kind == 4) { uint32_t p = 0; memcpy(&p, cur.pix + ((size_t)v * cur.w + u) * BPP, BPP); *want = p; return 1; }
  if (bit_at(cur.src, cur.w, u, v)) { rgb[0] = cur.fr; rgb[1] = cur.fg; rgb[2] = cur.fb; }
  else { rgb[0] = cur.br; rgb[1] = cur.bg; rgb[2] = cur.bb; }
  *want = colour(rgb[0], rgb[1], rgb[2]);
  return 2;
}
static int chan_ok(uint32_t got, int max, int shift, int c16) {
  uint32_t g = (got >> shift) & (uint32_t)max;
  uint32_t lo = (uint32_t)((uint64_t)max * c16 / 0xffff), hi = (uint32_t)(((uint64_t)max * c16 + 0xfffe) / 0xffff);
  return g == lo || g == hi;
}

/* the pixel the ORIGINAL rfbMakeRichCursorFromXCursor computes (16-bit colours shifted, not scaled) */
static uint32_t colour_unscaled(int r, int g, int b) {
  rfbPixelFormat *f = &scr->serverFormat; uint32_t v;
  v = ((uint32_t)r << f->redShift) | ((uint32_t)g << f->greenShift) | ((uint32_t)b << f->blueShift);
  if (BPP == 1) v &= 0xffu; else if (BPP == 2) v &= 0xffffu; else if (BPP == 3) v &= 0xffffffu;
  return v;
}

/* compare a client's picture with the reference composition for pointer position (px,py).
   pend != NULL: pixels marked there are skipped.  Every wrong pixel is classified: does it look
   exactly like one of the two known defects of the unrepaired code (DESIGN 11-f: cursor pixel in
   the last column/row left unpainted; X-cursor colour shifted instead of scaled)?  A wrong pixel
   that is NOT of that kind is reported in preference, so that another violation cannot hide. */
static void check_pixels(const char *label, int id, int px, int py, const unsigned char *pend) {
  int x, y; rfbPixelFormat *f = &scr->serverFormat;
  int have = 0, hx = 0, hy = 0; uint32_t hgot = 0, hwant = 0; const char *hcause = "";
  for (y = 0; y < H; y++) for (x = 0; x < W; x++) {
    uint32_t got = getcpx(id, x, y), want, m = 0xffffffffu, under; int rgb[3], mode = 1, bad; const char *cause = "";
    if (pend && pend[y * W + x]) continue;
    if (kind[id] == 0) mode = reference(x, y, px, py, &want, &m, rgb);
    else want = getpx((unsigned char *)scr->frameBuffer, x, y);
    if (mode == 0) continue;
    if (mode == 1) bad = xl[id] ? (got != ref_translate(id, want)) : (((got ^ want) & m) != 0);
    else {
      /* X-cursor colour: every channel of the SERVER pixel is the 16-bit colour scaled down, rounded
         either way; a translating client then sees the translation of one of those pixels */
      uint32_t lo[3], hi[3]; int k, mx[3] = { f->redMax, f->greenMax, f->blueMax }, sh[3] = { f->redShift, f->greenShift, f->blueShift };
      for (k = 0; k < 3; k++) { lo[k] = (uint32_t)((uint64_t)mx[k] * rgb[k] / 0xffff); hi[k] = (uint32_t)(((uint64_t)mx[k] * rgb[k] + 0xfffe) / 0xffff); }
      bad = 1;
      for (k = 0; k < 8 && bad; k++) {
        uint32_t v = ((k & 1 ? hi[0] : lo[0]) << sh[0]) | ((k & 2 ? hi[1] : lo[1]) << sh[1]) | ((k & 4 ? hi[2] : lo[2]) << sh[2]);
        if (xl[id] ? (got == ref_translate(id, v)) : (((got ^ v) & fmtmask()) == 0)) bad = 0;
      }
    }
    if (!bad) continue;
    under = getpx((unsigned char *)scr->frameBuffer, x, y);
    if (kind[id] == 0 && (x == W - 1 || y == H - 1) && got == (xl[id] ? ref_translate(id, under) : under)) cause = " cause=clip-last-col-row";
    else if (mode == 2 && got == (xl[id] ? ref_translate(id, colour_unscaled(rgb[0], rgb[1], rgb[2])) : colour_unscaled(rgb[0], rgb[1], rgb[2]))) cause = " cause=xcolour-unscaled";
    if (!have || (hcause[0] && !cause[0])) { have = 1; hx = x; hy = y; hgot = got; hwant = want; hcause = cause; }
    if (!cause[0]) goto report;
  }
report:
  if (have) printf("%s c%d BAD pixel %d,%d got=%x want=%x pointer=%d,%d%s\n", label, id, hx, hy, hgot, hwant, px, py, hcause);
  else printf("%s c%d ok\n", label, id);
}

/* direct oracle, part 2, for a client whose full-screen request was pending at this pump:
   raw client: picture == framebuffer with the cursor laid over it at the CURRENT pointer position
   shape client: picture == framebuffer */
static void oracle_client(int id) { check_pixels("oracle", id, scr->cursorX, scr->cursorY, NULL); }

/* direct oracle, part 3 (every pump, every live client): the whole-history invariant on the real
   server state - every pixel is either still pending in cl->modifiedRegion or the client's picture
   shows there the framebuffer (soft-cursor clients: with the cursor laid over it at cl->cursorX/Y) */
static void inv_client(int id) {
  rfbClientPtr cl = conns[id].cl; int x, y;
  unsigned char *pend = (unsigned char *)calloc((size_t)W * H, 1);
  sraRectangleIterator *it = sraRgnGetIterator(cl->modifiedRegion); sraRect r;
  while (sraRgnIteratorNext(it, &r))
    for (y = r.y1; y < r.y2; y++) for (x = r.x1; x < r.x2; x++) if (x >= 0 && y >= 0 && x < W && y < H) pend[y * W + x] = 1;
  sraRgnReleaseIterator(it);
  it = sraRgnGetIterator(cl->copyRegion);              /* a scheduled copy is pending, too */
  while (sraRgnIteratorNext(it, &r))
    for (y = r.y1; y < r.y2; y++) for (x = r.x1; x < r.x2; x++) if (x >= 0 && y >= 0 && x < W && y < H) pend[y * W + x] = 1;
  sraRgnReleaseIterator(it);
  check_pixels("inv", id, cl->cursorX, cl->cursorY, pend);
  free(pend);
}

/* ---------------------------------------------------------------- decoding the server's output */
static uint32_t be16(const unsigned char *p) { return (p[0] << 8) | p[1]; }
static int32_t be32(const unsigned char *p) { return (int32_t)(((uint32_t)p[0] << 24) | (p[1] << 16) | (p[2] << 8) | p[3]); }

/* returns 0 ok, -1 parse error / truncated */
static int decode(int id, vh_buf *shape, int *havepos, int *posx, int *posy) {
  vh_buf *o = &conns[id].out; size_t off = 0;
  while (off < o->n) {
    unsigned nr, r;
    if (o->p[off] != 0 || off + 4 > o->n) return -1;
    nr = be16(o->p + off + 2); off += 4;
    for (r = 0; r < nr; r++) {
      int x, y, w, h, j; int32_t enc;
      if (off + 12 > o->n) return -1;
      x = be16(o->p + off); y = be16(o->p + off + 2); w = be16(o->p + off + 4); h = be16(o->p + off + 6);
      enc = be32(o->p + off + 8); off += 12;
      if (enc == rfbEncodingRaw) {
        size_t len = (size_t)w * h * CB[id];
        int PWi = PW[id];
        if (off + len > o->n || x + w > PW[id] || y + h > PH[id]) return -1;
        for (j = 0; j < h; j++) {
          memcpy(pic[id] + ((size_t)(y + j) * PWi + x) * CB[id], o->p + off + (size_t)j * w * CB[id], (size_t)w * CB[id]);
          memset(cov[id] + (size_t)(y + j) * PWi + x, 1, w);
        }
        off += len;
      } else if (enc == rfbEncodingCopyRect) {
        int sx, sy; unsigned char *tmp;
        if (off + 4 > o->n) return -1;
        sx = be16(o->p + off); sy = be16(o->p + off + 2); off += 4;
        if (x + w > PW[id] || y + h > PH[id] || sx + w > PW[id] || sy + h > PH[id]) {
          if (getenv("VH_VERBOSE")) fprintf(stderr, "c%d: CopyRect %d,%d %dx%d from %d,%d outside the %dx%d picture\n", id, x, y, w, h, sx, sy, PW[id], PH[id]);
          return -1;
        }
        tmp = (unsigned char *)malloc((size_t)w * h * CB[id] + 1);
        for (j = 0; j < h; j++) memcpy(tmp + (size_t)j * w * CB[id], pic[id] + ((size_t)(sy + j) * PW[id] + sx) * CB[id], (size_t)w * CB[id]);
        for (j = 0; j < h; j++) {
          memcpy(pic[id] + ((size_t)(y + j) * PW[id] + x) * CB[id], tmp + (size_t)j * w * CB[id], (size_t)w * CB[id]);
          memset(ccov[id] + (size_t)(y + j) * PW[id] + x, 1, w);
        }
        free(tmp);
      } else if (enc == (int32_t)rfbEncodingXCursor || enc == (int32_t)rfbEncodingRichCursor) {
        size_t rb = (w + 7) / 8, len;
        char hdr[64];
        if (enc == (int32_t)rfbEncodingXCursor) len = (w * h) ? 6 + 2 * rb * h : 0;
        else len = (size_t)w * h * CB[id] + rb * h;
        if (off + len > o->n) return -1;
        snprintf(hdr, sizeof hdr, "%s:%d,%d,%d,%d:", enc == (int32_t)rfbEncodingXCursor ? "X" : "R", x, y, w, h);
        vh_buf_reset(shape);
        vh_buf_add(shape, hdr, strlen(hdr));
        { size_t k; char hx[3];
          if (!len) vh_buf_add(shape, "-", 1);
          for (k = 0; k < len; k++) { snprintf(hx, 3, "%02x", o->p[off + k]); vh_buf_add(shape, hx, 2); } }
        off += len;
      } else if (enc == (int32_t)rfbEncodingPointerPos) {
        *havepos = 1; *posx = x; *posy = y;
      } else return -1;
    }
  }
  vh_buf_reset(o);
  return 0;
}

/* ---------------------------------------------------------------- cursor construction */
static unsigned char *dupbytes(const unsigned char *p, size_t n) {
  unsigned char *q = (unsigned char *)malloc(n ? n : 1); memcpy(q, p, n); return q;
}
static char *bits2str(const unsigned char *bits, int w, int h) {
  char *s = (char *)malloc((size_t)w * h + 1); int x, y;
  for (y = 0; y < h; y++) for (x = 0; x < w; x++) s[y * w + x] = bit_at(bits, w, x, y) ? 'x' : ' ';
  s[w * h] = 0; return s;
}

static int op_cursor_(char **tok, int n);
static int op_cursor(char **tok, int n) {       /* a rejected op leaves the oracle's cursor untouched */
  static char saved[sizeof cur]; int r;
  memcpy(saved, &cur, sizeof cur);
  r = op_cursor_(tok, n);
  if (r != 0) memcpy(&cur, saved, sizeof cur);
  return r;
}
static int op_cursor_(char **tok, int n) {
  rfbCursorPtr c = NULL; long l1, l2; int rb, w, h, haspix;
  memset(&cur, 0, sizeof cur);
  if (n == 2 && !strcmp(tok[1], "none")) { rfbSetCursor(scr, NULL); return 0; }
  if (n < 7) return -1;
  w = cur.w = atoi(tok[2]); h = cur.h = atoi(tok[3]); cur.xh = atoi(tok[4]); cur.yh = atoi(tok[5]);
  /* sizes: 0 is allowed (nothing to paint), up to 1200 a side as long as the arrays stay <= CURMAX */
  if (w < 0 || h < 0 || w > 1200 || h > 1200) return -1;
  rb = (w + 7) / 8;
  haspix = !strcmp(tok[1], "rich") || !strcmp(tok[1], "alpha");
  if ((long)rb * h > CURMAX || (haspix && (long)w * h * BPP > CURMAX)) return -1;
  if ((w == 0 || h == 0) && strcmp(tok[1], "x")) return -1;
  cur.fr = cur.fg = cur.fb = 0xffff;
  if (!strcmp(tok[1], "x") && n == 14) {
    cur.kind = 1;
    l1 = vh_unhex(tok[6], cur.src, sizeof cur.src); l2 = vh_unhex(tok[7], cur.mask, sizeof cur.mask);
    if (l1 != rb * h || l2 != rb * h) return -1;
    cur.fr = atoi(tok[8]); cur.fg = atoi(tok[9]); cur.fb = atoi(tok[10]);
    cur.br = atoi(tok[11]); cur.bg = atoi(tok[12]); cur.bb = atoi(tok[13]);
    c = (rfbCursorPtr)calloc(1, sizeof(rfbCursor));
    c->cleanup = c->cleanupSource = c->cleanupMask = TRUE;
    c->source = dupbytes(cur.src, l1); c->mask = dupbytes(cur.mask, l2);
  } else if (!strcmp(tok[1], "xs") && n == 8) {
    char *s1, *s2;
    cur.kind = 2;
    l1 = vh_unhex(tok[6], cur.src, sizeof cur.src); l2 = vh_unhex(tok[7], cur.mask, sizeof cur.mask);
    if (l1 != rb * h || l2 != rb * h) return -1;
    s1 = bits2str(cur.src, w, h); s2 = bits2str(cur.mask, w, h);
    c = rfbMakeXCursor(w, h, s1, s2);
    free(s1); free(s2);
  } else if (!strcmp(tok[1], "xm") && n == 7) {
    char *s1;
    cur.kind = 3;
    l1 = vh_unhex(tok[6], cur.src, sizeof cur.src);
    if (l1 != rb * h) return -1;
    s1 = bits2str(cur.src, w, h);
    c = rfbMakeXCursor(w, h, s1, NULL);
    free(s1);
  } else if (!strcmp(tok[1], "rich") && n == 14) {
    cur.kind = 4;
    l1 = vh_unhex(tok[6], cur.pix, sizeof cur.pix); l2 = vh_unhex(tok[7], cur.mask, sizeof cur.mask);
    if (l1 != w * h * BPP || l2 != rb * h) return -1;
    cur.fr = atoi(tok[8]); cur.fg = atoi(tok[9]); cur.fb = atoi(tok[10]);
    cur.br = atoi(tok[11]); cur.bg = atoi(tok[12]); cur.bb = atoi(tok[13]);
    c = (rfbCursorPtr)calloc(1, sizeof(rfbCursor));
    c->cleanup = c->cleanupMask = c->cleanupRichSource = TRUE;
    c->richSource = dupbytes(cur.pix, l1); c->mask = dupbytes(cur.mask, l2);
  } else if (!strcmp(tok[1], "alpha") && n == 9) {
    cur.kind = 5;
    l1 = vh_unhex(tok[6], cur.pix, sizeof cur.pix); l2 = vh_unhex(tok[7], cur.alpha, sizeof cur.alpha);
    if (l1 != w * h * BPP || l2 != w * h) return -1;
    cur.premult = atoi(tok[8]);
    cur.fr = cur.fg = cur.fb = 0;
    c = (rfbCursorPtr)calloc(1, sizeof(rfbCursor));
    c->cleanup = c->cleanupMask = c->cleanupRichSource = TRUE;
    c->richSource = dupbytes(cur.pix, l1); c->alphaSource = dupbytes(cur.alpha, l2);
    c->alphaPreMultiplied = cur.premult ? TRUE : FALSE;
    c->mask = (unsigned char *)rfbMakeMaskFromAlphaSource(w, h, c->alphaSource);
  } else return -1;
  if (!c) return -1;
  c->width = w; c->height = h; c->xhot = cur.xh; c->yhot = cur.yh;
  if (cur.kind == 1 || cur.kind == 4 || cur.kind == 5) {
    c->foreRed = cur.fr; c->foreGreen = cur.fg; c->foreBlue = cur.fb;
    c->backRed = cur.br; c->backGreen = cur.bg; c->backBlue = cur.bb;
  }
  rfbSetCursor(scr, c);
  return 0;
}

/* ---------------------------------------------------------------- clients */
static void put32(unsigned char *p, uint32_t v) { p[0] = v >> 24; p[1] = v >> 16; p[2] = v >> 8; p[3] = v; }

/* the encodings list of a client: `raw` / `x` / `rich` (standard lists) or `enc:a,b,c` in the order
   it is to be sent (raw, copyrect, x, rich, pos).  kind[] (what the decoder / oracle expect) follows
   from the SET: rich if RichCursor is listed, else x if XCursor is, else raw. */
static int32_t enclist[MAXC][16]; static int nenc[MAXC];
static int parse_encs(int id, const char *k) {
  int n = 0, hasx = 0, hasr = 0; char buf[256], *p, *q;
  if (!strcmp(k, "raw")) { enclist[id][n++] = rfbEncodingRaw; }
  else if (!strcmp(k, "x")) { enclist[id][n++] = rfbEncodingRaw; enclist[id][n++] = rfbEncodingXCursor; enclist[id][n++] = rfbEncodingPointerPos; hasx = 1; }
  else if (!strcmp(k, "rich")) { enclist[id][n++] = rfbEncodingRaw; enclist[id][n++] = rfbEncodingRichCursor; enclist[id][n++] = rfbEncodingPointerPos; hasr = 1; }
  else if (!strncmp(k, "enc:", 4) && strlen(k) < sizeof buf) {
    strcpy(buf, k + 4);
    for (p = buf; p && *p && n < 16; p = q) {
      q = strchr(p, ','); if (q) *q++ = 0;
      if (!strcmp(p, "raw")) enclist[id][n++] = rfbEncodingRaw;
      else if (!strcmp(p, "copyrect")) enclist[id][n++] = rfbEncodingCopyRect;
      else if (!strcmp(p, "x")) { enclist[id][n++] = rfbEncodingXCursor; hasx = 1; }
      else if (!strcmp(p, "rich")) { enclist[id][n++] = rfbEncodingRichCursor; hasr = 1; }
      else if (!strcmp(p, "pos")) enclist[id][n++] = rfbEncodingPointerPos;
      else return -1;
    }
  } else return -1;
  nenc[id] = n;
  return hasr ? 2 : hasx ? 1 : 0;
}
static void send_encodings(int id) {
  unsigned char b[4 + 4 * 16]; int i;
  b[0] = rfbSetEncodings; b[1] = 0; b[2] = 0; b[3] = (unsigned char)nenc[id];
  for (i = 0; i < nenc[id]; i++) put32(b + 4 + 4 * i, (uint32_t)enclist[id][i]);
  vh_send(&conns[id], b, 4 + 4 * nenc[id]);
  rfbProcessClientMessage(conns[id].cl);
}

static int op_client(int id, const char *k, const char *fname) {
  unsigned char b[64]; vh_conn *c = &conns[id]; const vfmt *cf = NULL;
  { int kd; if (id < 0 || id >= MAXC || used[id] || !scr || (kd = parse_encs(id, k)) < 0) return -1; kind[id] = kd; }
  if (fname) { size_t i; for (i = 0; i < sizeof FMTS / sizeof FMTS[0]; i++) if (!strcmp(fname, FMTS[i].name)) cf = &FMTS[i]; if (!cf) return -1; }
  used[id] = 1;
  if (vh_connect_pre(scr, c, "RFB 003.008\n", 12) < 0 || !c->cl) return -1;
  rfbProcessClientMessage(c->cl);                       /* version */
  b[0] = 1; vh_send(c, b, 1); rfbProcessClientMessage(c->cl);   /* security None */
  b[0] = 1; vh_send(c, b, 1); rfbProcessClientMessage(c->cl);   /* ClientInit shared */
  if (!c->cl || c->cl->state != RFB_NORMAL) return -1;
  send_encodings(id);
  CB[id] = BPP; xl[id] = 0;
  if (cf) {                      /* SetPixelFormat: little-endian true colour */
    memset(b, 0, 20);
    b[0] = rfbSetPixelFormat; b[4] = (unsigned char)(cf->bytes * 8); b[5] = (unsigned char)cf->depth; b[6] = 0; b[7] = 1;
    b[8] = cf->rm >> 8; b[9] = cf->rm; b[10] = cf->gm >> 8; b[11] = cf->gm; b[12] = cf->bm >> 8; b[13] = cf->bm;
    b[14] = cf->rs; b[15] = cf->gs; b[16] = cf->bs;
    vh_send(c, b, 20);
    rfbProcessClientMessage(c->cl);
    if (!c->cl || c->cl->sock == RFB_INVALID_SOCKET) return -1;
    cfmt[id] = *cf; CB[id] = cf->bytes;
    xl[id] = (c->cl->translateFn != rfbTranslateNone);
  }
  vh_drain(c); vh_buf_reset(&c->out);
  pic[id] = (unsigned char *)calloc((size_t)W * H, CB[id]);
  PW[id] = W; PH[id] = H;
  cov[id] = (unsigned char *)calloc((size_t)W * H, 1);
  ccov[id] = (unsigned char *)calloc((size_t)W * H, 1);
  return 0;
}

int main(void) {
  char *line, *tok[32];
  while ((line = vh_readline())) {
    int n = vh_split(line, tok, 32);
    if (n == 0 || tok[0][0] == '#') continue;
    if (!strcmp(tok[0], "screen") && n == 4 && !scr) {
      int x, y;
      W = atoi(tok[1]); H = atoi(tok[2]); BPP = atoi(tok[3]);
      if (W < 1 || H < 1 || W > 200 || H > 200 || (BPP != 1 && BPP != 2 && BPP != 3 && BPP != 4)) { puts("bad-op"); continue; }
      scr = vh_screen(W, H, BPP);
      if (!scr || scr->paddedWidthInBytes != W * BPP) { fprintf(stderr, "no screen\n"); return 2; }
      for (y = 0; y < H; y++) for (x = 0; x < W; x++) setpx((unsigned char *)scr->frameBuffer, x, y, pixval(x, y, 0));
      scr->maxRectsPerUpdate = 1 << 30;   /* no coarsening of the update region to its bounding box (C02 territory) */
      scr->displayHook = hook_display; scr->displayFinishedHook = hook_finished;
      rfbVerifPreEncodeHook = hook_pre;
      /* until the script installs a cursor the library's built-in default cursor is in effect;
         the oracle's description of it is read from the library's own record */
      if (scr->cursor && scr->cursor->source && scr->cursor->mask && scr->cursor->width <= 64 && scr->cursor->height <= 64) {
        rfbCursorPtr c = scr->cursor; int nb = ((c->width + 7) / 8) * c->height;
        memset(&cur, 0, sizeof cur);
        cur.kind = 1; cur.w = c->width; cur.h = c->height; cur.xh = c->xhot; cur.yh = c->yhot;
        memcpy(cur.src, c->source, nb); memcpy(cur.mask, c->mask, nb);
        cur.fr = c->foreRed; cur.fg = c->foreGreen; cur.fb = c->foreBlue;
        cur.br = c->backRed; cur.bg = c->backGreen; cur.bb = c->backBlue;
      }
      puts("ok");
    } else if (!scr) {
      puts("bad-op");
    } else if (!strcmp(tok[0], "draw") && n == 6) {
      int x0 = atoi(tok[1]), y0 = atoi(tok[2]), w = atoi(tok[3]), h = atoi(tok[4]), x, y; uint32_t seed = (uint32_t)atoi(tok[5]);
      if (x0 < 0 || y0 < 0 || w < 1 || h < 1 || x0 + w > W || y0 + h > H) { puts("bad-op"); continue; }
      for (y = y0; y < y0 + h; y++) for (x = x0; x < x0 + w; x++) setpx((unsigned char *)scr->frameBuffer, x, y, pixval(x, y, seed));
      rfbMarkRectAsModified(scr, x0, y0, x0 + w, y0 + h);
      puts("ok");
    } else if (!strcmp(tok[0], "cursor")) {
      puts(op_cursor(tok, n) == 0 ? "ok" : "bad-op");
    } else if (!strcmp(tok[0], "client") && (n == 3 || n == 4)) {
      puts(op_client(atoi(tok[1]), tok[2], n == 4 ? tok[3] : NULL) == 0 ? "ok" : "bad-op");
    } else if (!strcmp(tok[0], "copy") && n == 7) {
      int x1 = atoi(tok[1]), y1 = atoi(tok[2]), x2 = atoi(tok[3]), y2 = atoi(tok[4]), dx = atoi(tok[5]), dy = atoi(tok[6]);
      /* destination rectangle and its source (displaced by -(dx,dy)) inside the framebuffer */
      if (x1 < 0 || y1 < 0 || x1 >= x2 || y1 >= y2 || x2 > W || y2 > H || x1 - dx < 0 || y1 - dy < 0 || x2 - dx > W || y2 - dy > H) { puts("bad-op"); continue; }
      rfbDoCopyRect(scr, x1, y1, x2, y2, dx, dy);
      puts("ok");
    } else if (!strcmp(tok[0], "scale") && n == 3) {
      int id = atoi(tok[1]), f = atoi(tok[2]); unsigned char b[4]; vh_conn *c;
      if (!alive(id) || f < 1 || f > 8 || W / f < 1 || H / f < 1) { puts("bad-op"); continue; }
      c = &conns[id];
      vh_drain(c); vh_buf_reset(&c->out);
      b[0] = rfbSetScale; b[1] = (unsigned char)f; b[2] = 0; b[3] = 0;
      vh_send(c, b, 4);
      rfbProcessClientMessage(c->cl);
      vh_drain(c);
      /* the server answers with rfbResizeFrameBuffer (type 4, pad, width, height) */
      if (c->out.n != 6 || c->out.p[0] != rfbResizeFrameBuffer) { puts("scale-failed"); vh_buf_reset(&c->out); continue; }
      PW[id] = be16(c->out.p + 2); PH[id] = be16(c->out.p + 4);
      vh_buf_reset(&c->out);
      free(pic[id]); free(cov[id]); free(ccov[id]);
      pic[id] = (unsigned char *)calloc((size_t)PW[id] * PH[id], CB[id]);
      cov[id] = (unsigned char *)calloc((size_t)PW[id] * PH[id], 1);
      ccov[id] = (unsigned char *)calloc((size_t)PW[id] * PH[id], 1);
      fullreq[id] = 0;
      printf("ok %dx%d\n", PW[id], PH[id]);
    } else if (!strcmp(tok[0], "setenc") && n == 3) {
      int id = atoi(tok[1]);
      int kd;
      if (!alive(id) || (kd = parse_encs(id, tok[2])) < 0) { puts("bad-op"); continue; }
      kind[id] = kd;
      send_encodings(id);
      puts("ok");
    } else if (!strcmp(tok[0], "ptr") && n == 5) {
      int id = atoi(tok[1]), x = atoi(tok[2]), y = atoi(tok[3]), m = atoi(tok[4]), i, first = 1; unsigned char b[6];
      if (!alive(id) || x < 0 || y < 0 || x > 65535 || y > 65535) { puts("bad-op"); continue; }
      b[0] = rfbPointerEvent; b[1] = (unsigned char)m; b[2] = x >> 8; b[3] = x; b[4] = y >> 8; b[5] = y;
      vh_send(&conns[id], b, 6);
      rfbProcessClientMessage(conns[id].cl);
      printf("pos=%d,%d pc=", scr->cursorX, scr->cursorY);
      if (scr->pointerClient) printf("%d", idof(scr->pointerClient)); else printf("-");
      printf(" moved=");
      for (i = 0; i < MAXC; i++) if (alive(i)) { printf("%s%d:%d", first ? "" : ",", i, conns[i].cl->cursorWasMoved ? 1 : 0); first = 0; }
      putchar('\n');
    } else if (!strcmp(tok[0], "req") && n == 7) {
      int id = atoi(tok[1]), inc = atoi(tok[2]), x = atoi(tok[3]), y = atoi(tok[4]), w = atoi(tok[5]), h = atoi(tok[6]); unsigned char b[10];
      if (!alive(id) || x < 0 || y < 0 || w < 1 || h < 1 || x + w > PW[id] || y + h > PH[id]) { puts("bad-op"); continue; }
      b[0] = rfbFramebufferUpdateRequest; b[1] = inc ? 1 : 0; b[2] = x >> 8; b[3] = x; b[4] = y >> 8; b[5] = y;
      b[6] = w >> 8; b[7] = w; b[8] = h >> 8; b[9] = h;
      vh_send(&conns[id], b, 10);
      rfbProcessClientMessage(conns[id].cl);
      if (x == 0 && y == 0 && w == PW[id] && h == PH[id]) fullreq[id] = 1;
      puts("ok");
    } else if (!strcmp(tok[0], "failnext") && n == 3) {
      int id = atoi(tok[1]);
      if (!alive(id)) { puts("bad-op"); continue; }
      fail_fd = conns[id].cl->sock; fail_count = atoi(tok[2]);
      puts("ok");
    } else if (!strcmp(tok[0], "pump") && n == 1) {
      int i; uint64_t h0 = fbhash();
      for (i = 0; i < MAXC; i++) { memset(&st[i], 0, sizeof st[i]); if (used[i] && cov[i]) { memset(cov[i], 0, (size_t)PW[i] * PH[i]); memset(ccov[i], 0, (size_t)PW[i] * PH[i]); } }
      rfbProcessEvents(scr, 0);
      for (i = 0; i < MAXC; i++) {
        vh_buf shape = {0, 0, 0}; int havepos = 0, px = 0, py = 0, perr = 0, dead;
        if (!used[i]) continue;
        vh_drain(&conns[i]);
        dead = !alive(i);
        if (st[i].n == 0) { printf("c%d %s\n", i, dead ? "dead" : "n=0"); if (!dead && fullreq[i] && PW[i] == W && PH[i] == H) oracle_client(i); if (!dead && PW[i] == W && PH[i] == H) inv_client(i); continue; }
        if (st[i].res && !dead) perr = decode(i, &shape, &havepos, &px, &py);
        printf("c%d n=%d res=%d before=%016llx painted=%016llx after=%016llx cur=%d,%d ucl=%d", i, st[i].n, st[i].res,
               (unsigned long long)st[i].before, (unsigned long long)st[i].painted, (unsigned long long)st[i].after,
               st[i].cx, st[i].cy, st[i].ucl);
        if (st[i].res && !dead) {
          printf(" shape="); if (shape.n) fwrite(shape.p, 1, shape.n, stdout); else putchar('-');
          if (havepos) printf(" pos=%d,%d", px, py); else printf(" pos=-");
          printf(" cov=%016llx pic=%016llx ccov=%016llx%s\n", (unsigned long long)vh_fnv(cov[i], (size_t)PW[i] * PH[i]),
                 (unsigned long long)vh_fnv(pic[i], (size_t)PW[i] * PH[i] * CB[i]),
                 (unsigned long long)vh_fnv(ccov[i], (size_t)PW[i] * PH[i]), perr ? " PARSE-ERROR" : "");
        } else printf(" closed\n");
        /* direct oracle, part 1: the application's framebuffer is bit-identical after the update */
        if (st[i].after != st[i].before) printf("oracle c%d BAD framebuffer changed by update (res=%d)\n", i, st[i].res);
        /* ... and so is every scaled copy of it that the server keeps for scaled clients */
        if (safter[i] != sbefore[i]) printf("oracle c%d BAD scaled framebuffer copy changed by update (res=%d)\n", i, st[i].res);
        if (st[i].res && !dead && fullreq[i] && PW[i] == W && PH[i] == H) oracle_client(i);
        if (st[i].res && !dead && !perr && PW[i] == W && PH[i] == H) inv_client(i);
        fullreq[i] = 0;
        free(shape.p);
      }
      if (fbhash() != h0) puts("oracle BAD framebuffer differs after pump");
      if (fail_fd >= 0) { int j, live = 0; for (j = 0; j < MAXC; j++) if (alive(j) && conns[j].cl->sock == fail_fd) live = 1; if (!live) { fail_fd = -1; fail_count = -1; } }
    } else if (!strcmp(tok[0], "dump") && (n == 2 || n == 3)) {
      if (!strcmp(tok[1], "fb")) { vh_puthex(stdout, (unsigned char *)scr->frameBuffer, (size_t)W * H * BPP); putchar('\n'); }
      else if (n == 3 && atoi(tok[2]) >= 0 && atoi(tok[2]) < MAXC && pic[atoi(tok[2])]) { vh_puthex(stdout, pic[atoi(tok[2])], (size_t)W * H * CB[atoi(tok[2])]); putchar('\n'); }
      else puts("bad-op");
    } else puts("bad-op");
    fflush(stdout);
  }
  /* orderly teardown so that LeakSanitizer sees real leaks only */
  if (scr) {
    int i;
    for (i = 0; i < MAXC; i++) if (used[i]) {
      if (conns[i].peer >= 0) close(conns[i].peer);
      if (conns[i].cl) { rfbCloseClient(conns[i].cl); rfbClientConnectionGone(conns[i].cl); }
      free(pic[i]); free(cov[i]); free(ccov[i]); free(conns[i].out.p);
    }
    { char *fb = scr->frameBuffer; rfbScreenCleanup(scr); free(fb); }
  }
  return 0;
}
