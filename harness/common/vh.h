/* Shared helpers for the C harnesses (line protocol, hex, PRNG, byte buffers).
 * Every harness reads one op per line on stdin and prints one observation per line on stdout,
 * the same script is fed to the Lean model driver and the two streams are diffed. */
#ifndef VERIF_VH_H
#define VERIF_VH_H
#include <stdio.h>
#include <stdlib.h>
#include <string.h>
#include <stdint.h>
#include <errno.h>
#include <unistd.h>

#define VH_MAXTOK 4096

typedef struct { unsigned char *p; size_t n, cap; } vh_buf;

static void vh_buf_add(vh_buf *b, const void *d, size_t n) {
  if (b->n + n + 1 > b->cap) {
    size_t c = b->cap ? b->cap * 2 : 4096;
    while (c < b->n + n + 1) c *= 2;
    b->p = (unsigned char *)realloc(b->p, c);
    b->cap = c;
  }
  if (n) memcpy(b->p + b->n, d, n);
  b->n += n;
}
static void vh_buf_reset(vh_buf *b) { b->n = 0; }
static void vh_buf_consume(vh_buf *b, size_t n) {
  if (n >= b->n) { b->n = 0; return; }
  memmove(b->p, b->p + n, b->n - n); b->n -= n;
}

/* read one line (arbitrary length) from stdin, strip newline; returns NULL at EOF */
static char *vh_readline(void) {
  static char *line = NULL; static size_t cap = 0;
  ssize_t n = getline(&line, &cap, stdin);
  if (n < 0) return NULL;
  while (n > 0 && (line[n-1] == '\n' || line[n-1] == '\r')) line[--n] = 0;
  return line;
}

/* split in place on spaces; returns number of tokens */
static int vh_split(char *line, char **tok, int max) {
  int n = 0; char *p = line;
  while (*p && n < max) {
    while (*p == ' ') p++;
    if (!*p) break;
    tok[n++] = p;
    while (*p && *p != ' ') p++;
    if (*p) *p++ = 0;
  }
  return n;
}

static int vh_hexval(int c) {
  if (c >= '0' && c <= '9') return c - '0';
  if (c >= 'a' && c <= 'f') return c - 'a' + 10;
  if (c >= 'A' && c <= 'F') return c - 'A' + 10;
  return -1;
}
/* "-" is the empty string. returns length or -1 */
static long vh_unhex(const char *s, unsigned char *out, size_t max) {
  size_t n = 0;
  if (s[0] == '-' && s[1] == 0) return 0;
  while (s[0] && s[1]) {
    int a = vh_hexval(s[0]), b = vh_hexval(s[1]);
    if (a < 0 || b < 0 || n >= max) return -1;
    out[n++] = (unsigned char)(a * 16 + b); s += 2;
  }
  return s[0] ? -1 : (long)n;
}
static void vh_puthex(FILE *f, const unsigned char *p, size_t n) {
  size_t i;
  if (!n) { fputc('-', f); return; }
  for (i = 0; i < n; i++) fprintf(f, "%02x", p[i]);
}

/* splitmix64: the one PRNG used for any pseudo-random content the harness itself makes */
static uint64_t vh_rng_state = 0x9E3779B97F4A7C15ull;
static void vh_srand(uint64_t s) { vh_rng_state = s * 0x9E3779B97F4A7C15ull + 1; }
static uint64_t vh_rand(void) {
  uint64_t z = (vh_rng_state += 0x9E3779B97F4A7C15ull);
  z = (z ^ (z >> 30)) * 0xBF58476D1CE4E5B9ull;
  z = (z ^ (z >> 27)) * 0x94D049BB133111EBull;
  return z ^ (z >> 31);
}

/* FNV-1a 64 for compact observations of large buffers */
static uint64_t vh_fnv(const unsigned char *p, size_t n) {
  uint64_t h = 1469598103934665603ull; size_t i;
  for (i = 0; i < n; i++) { h ^= p[i]; h *= 1099511628211ull; }
  return h;
}
#endif
