/* Server-session helpers: a real rfbScreenInfo served in-process over AF_UNIX socketpairs.
 * No listening sockets, no threads; the harness drives rfbProcessEvents itself. */
#ifndef VERIF_SESS_H
#define VERIF_SESS_H
#include <rfb/rfb.h>
#include <sys/socket.h>
#include <sys/ioctl.h>
#include <fcntl.h>
#include <poll.h>
#include "vh.h"

typedef struct {
  rfbClientPtr cl;      /* NULL once the library has freed it (set by the gone hook if installed) */
  int peer;             /* harness end of the socketpair (non-blocking) */
  int srvfd;            /* number of the server end (for bookkeeping only; may be closed) */
  vh_buf out;           /* everything the server has written to this connection, not yet consumed */
  int gone;             /* times clientGoneHook ran */
} vh_conn;

static void vh_quiet_log(const char *fmt, ...) { (void)fmt; }

static rfbScreenInfoPtr vh_screen(int w, int h, int bytespp) {
  int argc = 1; char *argv[] = { (char *)"verif", NULL };
  rfbScreenInfoPtr s;
  if (!getenv("VH_VERBOSE")) { rfbLog = vh_quiet_log; rfbErr = vh_quiet_log; }
  s = rfbGetScreen(&argc, argv, w, h, bytespp == 2 ? 5 : 8, bytespp == 1 ? 1 : 3, bytespp);
  if (!s) return NULL;
  s->frameBuffer = (char *)calloc((size_t)w * h, bytespp);
  s->port = 0; s->ipv6port = 0; s->autoPort = FALSE; s->httpPort = 0; s->http6Port = 0;
  s->httpDir = NULL;
  s->deferUpdateTime = 0;
  s->maxClientWait = 100;   /* ms: a stuck read returns quickly; harnesses avoid partial sends */
  rfbInitServer(s);
  return s;
}

static void vh_gone_hook(rfbClientPtr cl) {
  vh_conn *c = (vh_conn *)cl->clientData;
  if (c) { c->gone++; c->cl = NULL; }
}

/* returns 0 on success; the connection is in RFB_PROTOCOL_VERSION state, the server has already
   written its version string (it is in c->out after the next vh_drain) */
static int vh_connect_pre(rfbScreenInfoPtr s, vh_conn *c, const void *pre, size_t prelen);
static int vh_connect(rfbScreenInfoPtr s, vh_conn *c) { return vh_connect_pre(s, c, NULL, 0); }
/* pre: bytes the peer has already sent when the server accepts the connection.  Passing the
   client's version string here avoids the library's 100 ms wait for a possible WebSocket "GET". */
static int vh_connect_pre(rfbScreenInfoPtr s, vh_conn *c, const void *pre, size_t prelen) {
  int sv[2];
  memset(c, 0, sizeof *c);
  if (socketpair(AF_UNIX, SOCK_STREAM, 0, sv) < 0) return -1;
  fcntl(sv[1], F_SETFL, fcntl(sv[1], F_GETFL) | O_NONBLOCK);
  { int sz = 4 << 20; setsockopt(sv[0], SOL_SOCKET, SO_SNDBUF, &sz, sizeof sz);
    setsockopt(sv[1], SOL_SOCKET, SO_SNDBUF, &sz, sizeof sz);
    setsockopt(sv[1], SOL_SOCKET, SO_RCVBUF, &sz, sizeof sz);
    setsockopt(sv[0], SOL_SOCKET, SO_RCVBUF, &sz, sizeof sz); }
  c->peer = sv[1]; c->srvfd = sv[0];
  if (prelen) { if (write(sv[1], pre, prelen) != (ssize_t)prelen) return -1; }
  c->cl = rfbNewClient(s, sv[0]);
  if (c->cl) { c->cl->clientData = c; c->cl->clientGoneHook = vh_gone_hook; }
  return 0;
}

/* read everything currently available from the server into c->out; returns 1 if peer saw EOF */
static int vh_drain(vh_conn *c) {
  unsigned char tmp[65536]; int eof = 0;
  for (;;) {
    ssize_t n = read(c->peer, tmp, sizeof tmp);
    if (n > 0) { vh_buf_add(&c->out, tmp, (size_t)n); continue; }
    if (n == 0) eof = 1;
    break;
  }
  return eof;
}

static int vh_send(vh_conn *c, const unsigned char *p, size_t n) {
  size_t off = 0;
  while (off < n) {
    ssize_t w = write(c->peer, p + off, n - off);
    if (w < 0) { if (errno == EAGAIN || errno == EINTR) { vh_drain(c); continue; } return -1; }
    off += (size_t)w;
  }
  return 0;
}

static int vh_srv_pending(int fd) { int n = 0; if (ioctl(fd, FIONREAD, &n) < 0) return 0; return n; }

/* run the application-driven event loop until nothing is left to do for the given connections */
static void vh_pump(rfbScreenInfoPtr s, vh_conn **cs, int nc) {
  int idle = 0, iter = 0;
  while (idle < 2 && iter < 100000) {
    int i, busy = 0;
    if (rfbProcessEvents(s, 0)) busy = 1;
    for (i = 0; i < nc; i++) {
      if (!cs[i]) continue;
      vh_drain(cs[i]);
      if (cs[i]->cl && cs[i]->cl->sock != RFB_INVALID_SOCKET && vh_srv_pending(cs[i]->cl->sock) > 0) busy = 1;
    }
    idle = busy ? 0 : idle + 1; iter++;
  }
}

/* standard handshake on a password-less screen for a connection made with
   vh_connect_pre(s, c, "RFB 003.008\n", 12): security None, ClientInit(shared) */
static int vh_handshake_none(rfbScreenInfoPtr s, vh_conn *c, int shared) {
  vh_conn *arr[1]; unsigned char b[2];
  arr[0] = c;
  vh_pump(s, arr, 1);
  b[0] = 1; vh_send(c, b, 1); vh_pump(s, arr, 1);     /* choose None */
  b[0] = shared ? 1 : 0; vh_send(c, b, 1); vh_pump(s, arr, 1);
  vh_buf_reset(&c->out);
  return (c->cl && c->cl->state == RFB_NORMAL) ? 0 : -1;
}
#endif
