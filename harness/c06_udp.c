/* C06 witness: the UDP input channel (screen->udpPort, off by default).
 * rfbProcessUDPInput hands every KeyEvent / PointerEvent datagram to kbdAddEvent / ptrAddEvent: no
 * handshake, no password, no view-only test, no pointer ownership.  On a password-protected screen
 * whose application enabled udpPort, anybody who can send a datagram injects input.
 *
 *   c06_udp PW      PW=1: password list {"full","view"}; prints the callbacks caused by one KeyEvent
 *                   and one PointerEvent datagram from a socket that never spoke RFB, then `= done`.
 */
#include <rfb/rfb.h>
#include <sys/socket.h>
#include <netinet/in.h>
#include <arpa/inet.h>
#include "vh.h"

static void cb_kbd(rfbBool down, rfbKeySym key, rfbClientPtr cl) { (void)cl; printf("kbd udp %u %lu\n", (unsigned)(unsigned char)down, (unsigned long)key); }
static void cb_ptr(int mask, int x, int y, rfbClientPtr cl) { (void)cl; printf("ptr udp %d %d %d\n", mask, x, y); }
static void quiet_log(const char *fmt, ...) { (void)fmt; }
static char *pws[] = { (char *)"full", (char *)"view", NULL };

int main(int argc, char **argv) {
  int a = 1, i, s, port = 0; char *av[] = { (char *)"c06_udp", NULL };
  rfbScreenInfoPtr scr; struct sockaddr_in sa; socklen_t sl = sizeof sa;
  unsigned char key[8] = { 4, 1, 0, 0, 0, 0, 0, 0x61 }, ptr[6] = { 5, 1, 0, 3, 0, 4 };
  if (!getenv("VH_VERBOSE")) { rfbLog = quiet_log; rfbErr = quiet_log; }
  /* find a free UDP port on the loopback interface */
  s = socket(AF_INET, SOCK_DGRAM, 0);
  memset(&sa, 0, sizeof sa); sa.sin_family = AF_INET; sa.sin_addr.s_addr = htonl(INADDR_LOOPBACK);
  if (bind(s, (struct sockaddr *)&sa, sizeof sa) < 0 || getsockname(s, (struct sockaddr *)&sa, &sl) < 0) return 2;
  port = ntohs(sa.sin_port); close(s);
  scr = rfbGetScreen(&a, av, 64, 48, 8, 3, 4);
  if (!scr) return 2;
  scr->frameBuffer = (char *)calloc(64 * 48, 4);
  scr->port = 0; scr->ipv6port = 0; scr->autoPort = FALSE; scr->httpPort = 0; scr->http6Port = 0; scr->httpDir = NULL;
  scr->listenInterface = htonl(INADDR_LOOPBACK);
  scr->udpPort = port;                                  /* the application opts in */
  scr->kbdAddEvent = cb_kbd; scr->ptrAddEvent = cb_ptr;
  if (argc > 1 && atoi(argv[1])) { scr->authPasswdData = pws; scr->authPasswdFirstViewOnly = 1; scr->passwordCheck = rfbCheckPasswordByList; }
  rfbInitServer(scr);
  if (scr->udpSock == RFB_INVALID_SOCKET) { puts("= no-udp-socket"); return 0; }
  s = socket(AF_INET, SOCK_DGRAM, 0);
  sa.sin_port = htons(port);
  if (sendto(s, key, sizeof key, 0, (struct sockaddr *)&sa, sizeof sa) < 0) return 2;
  for (i = 0; i < 20; i++) rfbProcessEvents(scr, 10000);
  if (sendto(s, ptr, sizeof ptr, 0, (struct sockaddr *)&sa, sizeof sa) < 0) return 2;
  for (i = 0; i < 20; i++) rfbProcessEvents(scr, 10000);
  puts("= done");
  fflush(stdout);
  _exit(0);
}
