/* C18 harness: clipboard (cut text) transfer through the REAL server and the REAL client library.
 *
 * Connections (ids 0..MAXC-1), all over AF_UNIX socketpairs, single-threaded except for the
 * handshake of a LibVNCClient with the real server (helper thread runs InitialiseRFBConnection
 * while the main thread pumps rfbProcessEvents):
 *   rawws <id> <0|1>     reference peer over the WebSocket transport (binary / base64); wsfr id a,b = frame cuts of the next send
 *   raw  <id>            reference peer (the script supplies exact wire bytes) on the real server, NORMAL
 *   rawpre <id>          reference peer left in RFB_PROTOCOL_VERSION state (not-yet-NORMAL client)
 *   lib  <id> <utf8>     real LibVNCClient <-> real server
 *   fsrv <id> <utf8>     real LibVNCClient <-> reference peer playing the server
 * Blobs: def <name> hex <hex> | def <name> cat <n1> <n2> ..   (zdef lines are for the model only)
 * Ops:  cb8 0|1 | viewonly id 0|1 | send id blob | close id | pub blob | pub8 blob fb|null
 *       csend id blob | csend8 id blob | fsend id blob [eof] | cuts id s|c a,b,c
 *       kill id (peer closes, server not pumped) | senddie id blob (send, then close at once)
 *       stall id (peer stops reading, pipe made tiny: large writes fail half-way)
 * One observation line per op:  <events> | <closed ids> | <per-connection clipboard state>
 * Server output is canonicalised (provide payloads are inflated here; compressed bytes depend on
 * the zlib version and are never compared).
 */
#define _GNU_SOURCE
#include "sess.h"
#include <rfb/rfbclient.h>
#include <zlib.h>
#include <pthread.h>
#include <dlfcn.h>
#include <signal.h>
#include <stdarg.h>

/* ASan: fill every malloc'ed block completely with 0xbe so that "uninitialised heap delivered to
   the application" is a deterministic observation instead of noise */
const char *__asan_default_options(void) { return "max_malloc_fill_size=8388608:malloc_fill_byte=190"; }

#define MAXC 16
enum { K_NONE = 0, K_RAW, K_RAWPRE, K_LIB, K_FSRV };
typedef struct {
  int kind;
  vh_conn sc;            /* server side bookkeeping (raw, rawpre, lib) */
  rfbClient *lc;         /* LibVNCClient (lib, fsrv) */
  int lfd;               /* client library's fd */
  int ffd;               /* fsrv: harness end (fake server) */
  int dropped;           /* HandleRFBServerMessage returned FALSE, client closed */
  int stalled;           /* reference peer stopped reading and the server's send buffer is tiny */
  int ws;                /* reference peer speaks through the WebSocket transport: 1 binary, 2 base64 sub-protocol */
  vh_buf wsplain;        /* ws: RFB bytes recovered from the server's frames */
  long wsfr[8]; int nwsfr; /* ws: frame boundaries (offsets) for the next send; none = one frame */
  vh_buf fout;           /* fsrv: bytes written by the client library */
} conn_t;
static conn_t C[MAXC];
static rfbScreenInfoPtr scr;
static vh_buf ev;        /* event text of the current op */
static const char *curop = "";

/* ------------------------------------------------------------------ event text */
static void evf(const char *fmt, ...) {
  char tmp[512]; va_list ap; int n;
  va_start(ap, fmt); n = vsnprintf(tmp, sizeof tmp, fmt, ap); va_end(ap);
  if (ev.n) vh_buf_add(&ev, " ", 1);
  vh_buf_add(&ev, tmp, (size_t)n);
}
static void ev_hex(const unsigned char *p, size_t n) { /* appended to the last event, no space */
  static const char *hx = "0123456789abcdef"; size_t i; char two[2];
  if (!n) { vh_buf_add(&ev, "-", 1); return; }
  for (i = 0; i < n; i++) { two[0] = hx[p[i] >> 4]; two[1] = hx[p[i] & 15]; vh_buf_add(&ev, two, 2); }
}

/* ------------------------------------------------------------------ blobs */
#define MAXB 256
typedef struct { char name[32]; unsigned char *p; size_t n; } blob_t;
static blob_t B[MAXB]; static int nB;
static blob_t *blob(const char *name) {
  int i; for (i = 0; i < nB; i++) if (!strcmp(B[i].name, name)) return &B[i];
  return NULL;
}
static blob_t *blob_new(const char *name) {
  blob_t *b = blob(name);
  if (b) { free(b->p); b->p = NULL; b->n = 0; return b; }
  if (nB >= MAXB || strlen(name) >= sizeof B[0].name) return NULL;
  b = &B[nB++]; strcpy(b->name, name); b->p = NULL; b->n = 0; return b;
}

/* ------------------------------------------------------------------ read() interposer: cuts */
typedef struct { int fd; int active; long pos; long cut[8]; int ncut; int eagain; } cutsched;
static cutsched CS[4];
static ssize_t (*real_read)(int, void *, size_t);
/* a read never crosses a cut offset; after reaching a cut the next read reports EAGAIN once
   (the data is already in the socket, so the library's select() returns at once) */
ssize_t read(int fd, void *buf, size_t n) {
  int i;
  if (!real_read) real_read = (ssize_t (*)(int, void *, size_t))dlsym(RTLD_NEXT, "read");
  for (i = 0; i < 4; i++) {
    cutsched *s = &CS[i];
    if (s->active && s->fd == fd) {
      ssize_t r;
      if (s->eagain) { s->eagain = 0; if (!s->ncut) s->active = 0; errno = EAGAIN; return -1; }
      if (s->ncut && s->pos + (long)n > s->cut[0]) n = (size_t)(s->cut[0] - s->pos);
      r = real_read(fd, buf, n);
      if (r > 0) {
        s->pos += r;
        if (s->ncut && s->pos >= s->cut[0]) {
          s->ncut--;
          memmove(s->cut, s->cut + 1, sizeof(long) * (size_t)s->ncut);
          s->eagain = 1;
        }
      }
      return r;
    }
  }
  return real_read(fd, buf, n);
}

/* ------------------------------------------------------------------ watchdog */
static void on_alarm(int sig) {
  static const char m[] = "HANG\n"; (void)sig;
  if (write(1, m, sizeof m - 1) < 0) {}
  _exit(0);
}

/* ------------------------------------------------------------------ callbacks */
static int conn_of_cl(rfbClientPtr cl) {
  int i; for (i = 0; i < MAXC; i++) if (C[i].kind && C[i].sc.cl == cl) return i;
  return -1;
}
static void cb_l1(char *str, int len, rfbClientPtr cl) {
  evf("cb%d:l1:%d:%016llx", conn_of_cl(cl), len, (unsigned long long)vh_fnv((unsigned char *)str, len > 0 ? (size_t)len : 0));
}
static void cb_u8(char *str, int len, rfbClientPtr cl) {
  evf("cb%d:u8:%d:%016llx", conn_of_cl(cl), len, (unsigned long long)vh_fnv((unsigned char *)str, len > 0 ? (size_t)len : 0));
}
static int conn_of_lc(rfbClient *c) {
  int i; for (i = 0; i < MAXC; i++) if (C[i].lc == c) return i;
  return -1;
}
static void ccb_l1(rfbClient *c, const char *text, int len) {
  /* the library promises a NUL after the text of a classic message: read it (ASan checks) */
  int nul = text[len] == 0;
  evf("ccb%d:l1:%d:%016llx%s", conn_of_lc(c), len, (unsigned long long)vh_fnv((const unsigned char *)text, (size_t)len), nul ? "" : ":nonul");
}
static void ccb_u8(rfbClient *c, const char *text, int len) {
  evf("ccb%d:u8:%d:%016llx", conn_of_lc(c), len, (unsigned long long)vh_fnv((const unsigned char *)text, (size_t)len));
}
static void quiet_clog(const char *fmt, ...) { (void)fmt; }

/* ------------------------------------------------------------------ zlib canonicaliser */
/* inflate everything: returns plain bytes in *out, fin: 0=end 1=more 2=err */
static int inflate_all(const unsigned char *p, size_t n, vh_buf *out) {
  z_stream z; unsigned char tmp[65536]; int rc, fin = 1;
  memset(&z, 0, sizeof z);
  if (inflateInit(&z) != Z_OK) return 2;
  z.next_in = (unsigned char *)p; z.avail_in = (uInt)n;
  for (;;) {
    z.next_out = tmp; z.avail_out = sizeof tmp;
    rc = inflate(&z, Z_NO_FLUSH);
    vh_buf_add(out, tmp, sizeof tmp - z.avail_out);
    if (rc == Z_STREAM_END) { fin = 0; break; }
    if (rc == Z_BUF_ERROR) { fin = 1; break; }
    if (rc != Z_OK) { fin = 2; break; }
    if (z.avail_in == 0 && z.avail_out != 0) { fin = 1; break; }
  }
  inflateEnd(&z);
  return fin;
}
static const char *finname(int f) { return f == 0 ? "end" : f == 1 ? "more" : "err"; }

static uint32_t be32(const unsigned char *p) { return ((uint32_t)p[0] << 24) | (p[1] << 16) | (p[2] << 8) | p[3]; }

/* canonical text of a sequence of cut-text messages (type byte `ty`: 3 server->client, 6 client->server) */
static void canon_msgs(const char *tag, int id, vh_buf *b, int ty) {
  size_t off = 0; int first = 1;
  if (!b->n) return;
  evf("%s%d:[", tag, id);
  while (off < b->n) {
    const unsigned char *p = b->p + off; size_t left = b->n - off; char tmp[128]; int k;
    if (!first) vh_buf_add(&ev, ",", 1);
    first = 0;
    if (p[0] == ty && left >= 8) {
      uint32_t len = be32(p + 4);
      if (len & 0x80000000u) {
        uint32_t n = (uint32_t)(-(int32_t)len);   /* len != 0x80000000 in anything we emit */
        if (len == 0x80000000u || left < 8 + (size_t)n || n < 4) goto rawrest;
        {
          uint32_t flags = be32(p + 8);
          if ((flags & rfbExtendedClipboard_Provide) && !(flags & rfbExtendedClipboard_Caps)) {
            vh_buf pl; int fin; memset(&pl, 0, sizeof pl);
            fin = inflate_all(p + 12, n - 4, &pl);
            k = snprintf(tmp, sizeof tmp, "prv:%08x:%lu:%016llx:%s", flags, (unsigned long)pl.n,
                         (unsigned long long)vh_fnv(pl.p, pl.n), finname(fin));
            vh_buf_add(&ev, tmp, (size_t)k);
            free(pl.p);
          } else {
            k = snprintf(tmp, sizeof tmp, "ext:%08x:", flags);
            vh_buf_add(&ev, tmp, (size_t)k);
            ev_hex(p + 12, n - 4);
          }
          off += 8 + (size_t)n;
          continue;
        }
      } else {
        if (left < 8 + (size_t)len) goto rawrest;
        k = snprintf(tmp, sizeof tmp, "txt:%u:%016llx", len, (unsigned long long)vh_fnv(p + 8, len));
        vh_buf_add(&ev, tmp, (size_t)k);
        off += 8 + (size_t)len;
        continue;
      }
    }
  rawrest:
    vh_buf_add(&ev, "raw:", 4);
    ev_hex(p, left > 64 ? 64 : left);
    k = snprintf(tmp, sizeof tmp, ":%lu", (unsigned long)left);
    vh_buf_add(&ev, tmp, (size_t)k);
    off = b->n;
  }
  vh_buf_add(&ev, "]", 1);
  vh_buf_reset(b);
}

/* ------------------------------------------------------------------ WebSocket reference peer */
static const char b64tab[] = "ABCDEFGHIJKLMNOPQRSTUVWXYZabcdefghijklmnopqrstuvwxyz0123456789+/";
static void b64_enc(const unsigned char *p, size_t n, vh_buf *o) {
  size_t i; char q[4];
  for (i = 0; i + 2 < n; i += 3) {
    q[0] = b64tab[p[i] >> 2]; q[1] = b64tab[((p[i] & 3) << 4) | (p[i+1] >> 4)];
    q[2] = b64tab[((p[i+1] & 15) << 2) | (p[i+2] >> 6)]; q[3] = b64tab[p[i+2] & 63];
    vh_buf_add(o, q, 4);
  }
  if (n - i == 1) { q[0] = b64tab[p[i] >> 2]; q[1] = b64tab[(p[i] & 3) << 4]; q[2] = q[3] = '='; vh_buf_add(o, q, 4); }
  else if (n - i == 2) { q[0] = b64tab[p[i] >> 2]; q[1] = b64tab[((p[i] & 3) << 4) | (p[i+1] >> 4)]; q[2] = b64tab[(p[i+1] & 15) << 2]; q[3] = '='; vh_buf_add(o, q, 4); }
}
static int b64_val(int c) { const char *q = c ? strchr(b64tab, c) : NULL; return q ? (int)(q - b64tab) : -1; }
static void b64_dec(const unsigned char *p, size_t n, vh_buf *o) {
  size_t i; unsigned acc = 0; int bits = 0;
  for (i = 0; i < n; i++) {
    int v = b64_val(p[i]); unsigned char b;
    if (v < 0) continue;
    acc = (acc << 6) | (unsigned)v; bits += 6;
    if (bits >= 8) { bits -= 8; b = (unsigned char)(acc >> bits); vh_buf_add(o, &b, 1); }
  }
}
/* one masked client frame with the RFB bytes p[0..n) */
static void ws_frame(conn_t *c, const unsigned char *p, size_t n, vh_buf *o) {
  static const unsigned char key[4] = { 0x37, 0xfa, 0x21, 0x3d };
  vh_buf pl; unsigned char h[14]; size_t hl = 0, i, base;
  memset(&pl, 0, sizeof pl);
  if (c->ws == 2) b64_enc(p, n, &pl); else vh_buf_add(&pl, p, n);
  h[hl++] = c->ws == 2 ? 0x81 : 0x82;
  if (pl.n < 126) h[hl++] = (unsigned char)(0x80 | pl.n);
  else if (pl.n < 65536) { h[hl++] = 0x80 | 126; h[hl++] = (unsigned char)(pl.n >> 8); h[hl++] = (unsigned char)pl.n; }
  else { int k; h[hl++] = 0x80 | 127; for (k = 7; k >= 0; k--) h[hl++] = (unsigned char)((uint64_t)pl.n >> (8 * k)); }
  memcpy(h + hl, key, 4); hl += 4;
  vh_buf_add(o, h, hl);
  base = o->n;
  vh_buf_add(o, pl.p, pl.n);
  for (i = 0; i < pl.n; i++) o->p[base + i] ^= key[i & 3];
  free(pl.p);
}
/* send RFB bytes from a reference peer: plain, or as WebSocket frames cut at the pending boundaries */
static int raw_send(conn_t *c, const unsigned char *p, size_t n) {
  vh_buf o; size_t off = 0; int k, r;
  if (!c->ws) return vh_send(&c->sc, p, n);
  memset(&o, 0, sizeof o);
  for (k = 0; k < c->nwsfr; k++) {
    size_t cut = (size_t)c->wsfr[k];
    if (cut <= off || cut >= n) continue;
    ws_frame(c, p + off, cut - off, &o); off = cut;
  }
  ws_frame(c, p + off, n - off, &o);
  c->nwsfr = 0;
  r = vh_send(&c->sc, o.p, o.n);
  free(o.p);
  return r;
}
/* move complete server frames from sc.out to wsplain */
static void ws_deframe(conn_t *c) {
  vh_buf *b = &c->sc.out; size_t off = 0;
  while (b->n - off >= 2) {
    const unsigned char *q = b->p + off; size_t hl = 2; uint64_t len = q[1] & 0x7f; int k;
    if (len == 126) { if (b->n - off < 4) break; len = ((uint64_t)q[2] << 8) | q[3]; hl = 4; }
    else if (len == 127) { if (b->n - off < 10) break; len = 0; for (k = 0; k < 8; k++) len = (len << 8) | q[2 + k]; hl = 10; }
    if (q[1] & 0x80) hl += 4;          /* the server never masks; tolerated */
    if (b->n - off < hl + len) break;
    if ((q[0] & 0x0f) == 1) b64_dec(q + hl, (size_t)len, &c->wsplain);
    else if ((q[0] & 0x0f) == 2) vh_buf_add(&c->wsplain, q + hl, (size_t)len);
    off += hl + (size_t)len;
  }
  vh_buf_consume(b, off);
}

/* ------------------------------------------------------------------ pumping */
static int srv_open(int id) {
  return (C[id].kind == K_RAW || C[id].kind == K_RAWPRE || C[id].kind == K_LIB)
         && C[id].sc.cl && C[id].sc.cl->sock != RFB_INVALID_SOCKET;
}
static int fd_pending(int fd) { int n = 0; if (fd < 0 || ioctl(fd, FIONREAD, &n) < 0) return 0; return n; }
static int fd_readable(int fd) {   /* data or EOF */
  struct pollfd p; if (fd < 0) return 0; p.fd = fd; p.events = POLLIN; p.revents = 0;
  return poll(&p, 1, 0) > 0 && (p.revents & (POLLIN | POLLHUP));
}

static void drain_fd(int fd, vh_buf *b) {
  unsigned char tmp[65536];
  for (;;) { ssize_t n = real_read ? real_read(fd, tmp, sizeof tmp) : read(fd, tmp, sizeof tmp);
    if (n > 0) { vh_buf_add(b, tmp, (size_t)n); continue; } break; }
}

/* run the client library's message loop on everything that has arrived */
static void lib_loop(int id) {
  conn_t *c = &C[id]; int guard = 0;
  if (!c->lc || c->dropped) return;
  while (!c->dropped && guard++ < 100000 && (c->lc->buffered > 0 || fd_readable(c->lfd))) {
    if (!HandleRFBServerMessage(c->lc)) {
      c->dropped = 1;
      evf("cdrop%d", id);
      close(c->lfd); c->lc->sock = RFB_INVALID_SOCKET; c->lfd = -1;
    }
  }
}

static void pump(void) {
  int idle = 0, iter = 0, i;
  while (idle < 2 && iter++ < 100000) {
    int busy = 0;
    if (rfbProcessEvents(scr, 0)) busy = 1;
    for (i = 0; i < MAXC; i++) {
      conn_t *c = &C[i];
      if (c->kind == K_RAW || c->kind == K_RAWPRE) { if (c->sc.peer >= 0 && !c->stalled) drain_fd(c->sc.peer, &c->sc.out); }
      if (c->kind == K_LIB) { size_t before = ev.n; lib_loop(i); if (ev.n != before) busy = 1; }
      if (c->kind == K_FSRV) { if (c->ffd >= 0) drain_fd(c->ffd, &c->fout); lib_loop(i); }
      if (srv_open(i) && fd_readable(c->sc.cl->sock)) busy = 1;
    }
    idle = busy ? 0 : idle + 1;
  }
}

static void finish_op_(int do_pump) {
  int i, first;
  if (do_pump) pump();
  for (i = 0; i < MAXC; i++) {
    if ((C[i].kind == K_RAW || C[i].kind == K_RAWPRE) && !C[i].stalled) {
      if (C[i].ws) { ws_deframe(&C[i]); canon_msgs("tx", i, &C[i].wsplain, 3); }
      else canon_msgs("tx", i, &C[i].sc.out, 3);
    }
    if (C[i].kind == K_FSRV) canon_msgs("ctx", i, &C[i].fout, 6);
  }
  if (!ev.n) vh_buf_add(&ev, "-", 1);
  fwrite(ev.p, 1, ev.n, stdout);
  fputs(" | x:", stdout);
  first = 1;
  for (i = 0; i < MAXC; i++) {
    int closed = 0;
    if (C[i].kind == K_RAW || C[i].kind == K_RAWPRE || C[i].kind == K_LIB) closed = !srv_open(i);
    if (C[i].kind == K_FSRV) closed = C[i].dropped;
    if (closed) { printf("%s%d", first ? "" : ",", i); first = 0; }
  }
  if (first) putchar('-');
  fputs(" |", stdout);
  for (i = 0; i < MAXC; i++) {
    if (srv_open(i)) {
      rfbClientPtr cl = C[i].sc.cl;
      printf(" s%d=%d,%08x,%u,%d,%016llx", i, cl->enableExtendedClipboard ? 1 : 0, cl->extClipboardUserCap,
             cl->extClipboardMaxUnsolicitedSize, cl->extClipboardData ? cl->extClipboardDataSize : -1,
             (unsigned long long)(cl->extClipboardData ? vh_fnv((unsigned char *)cl->extClipboardData, (size_t)cl->extClipboardDataSize) : 0));
    }
    if ((C[i].kind == K_FSRV || C[i].kind == K_LIB) && !C[i].dropped)
      printf(" %c%d=%08x", C[i].kind == K_LIB ? 'l' : 'c', i, C[i].lc->extendedClipboardServerCapabilities);
  }
  putchar('\n');
  fflush(stdout);
  vh_buf_reset(&ev);
}

static void finish_op(void) { finish_op_(1); }

/* ------------------------------------------------------------------ connection setup */
static int new_sockpair(int sv[2]) {
  int i, sz = 8 << 20;
  if (socketpair(AF_UNIX, SOCK_STREAM, 0, sv) < 0) return -1;
  for (i = 0; i < 2; i++) {
    if (setsockopt(sv[i], SOL_SOCKET, SO_SNDBUFFORCE, &sz, sizeof sz) < 0) setsockopt(sv[i], SOL_SOCKET, SO_SNDBUF, &sz, sizeof sz);
    if (setsockopt(sv[i], SOL_SOCKET, SO_RCVBUFFORCE, &sz, sizeof sz) < 0) setsockopt(sv[i], SOL_SOCKET, SO_RCVBUF, &sz, sizeof sz);
  }
  return 0;
}
static void nonblock(int fd) { fcntl(fd, F_SETFL, fcntl(fd, F_GETFL) | O_NONBLOCK); }

static rfbClient *mk_libclient(int arg) {   /* bit 0: GotXCutTextUTF8 installed, bit 1: GotXCutText NOT installed */
  rfbClient *c = rfbGetClient(8, 3, 4);
  if (!(arg & 2)) c->GotXCutText = ccb_l1;
  if (arg & 1) c->GotXCutTextUTF8 = ccb_u8;
  c->canHandleNewFBSize = FALSE;
  c->readTimeout = 2;
  return c;
}

typedef struct { rfbClient *c; volatile int done; int ok; } hs_t;
static void *hs_thread(void *a) {
  hs_t *h = (hs_t *)a;
  h->ok = InitialiseRFBConnection(h->c) ? 1 : 0;
  __atomic_store_n(&h->done, 1, __ATOMIC_SEQ_CST);
  return NULL;
}

static int setup_raw(int id, int normal, int ws) {
  conn_t *c = &C[id]; unsigned char b[1]; vh_conn *arr[1];
  int sv[2];
  memset(c, 0, sizeof *c); c->lfd = c->ffd = -1;
  if (new_sockpair(sv) < 0) return -1;
  nonblock(sv[1]);
  c->sc.peer = sv[1]; c->sc.srvfd = sv[0];
  c->ws = ws;
  if (ws) {
    char req[512]; int k; long he = -1; size_t j;
    k = snprintf(req, sizeof req, "GET / HTTP/1.1\r\nHost: h\r\nOrigin: o\r\nSec-WebSocket-Key: dGhlIHNhbXBsZSBub25jZQ==\r\n"
                 "Sec-WebSocket-Version: 13\r\nSec-WebSocket-Protocol: %s\r\n\r\n", ws == 2 ? "base64" : "binary");
    if (write(sv[1], req, (size_t)k) != k) return -1;
    c->kind = K_RAW;
    c->sc.cl = rfbNewClient(scr, sv[0]);
    if (!c->sc.cl || !c->sc.cl->wsctx) return -1;
    c->sc.cl->clientData = &c->sc; c->sc.cl->clientGoneHook = vh_gone_hook;
    arr[0] = &c->sc;
    vh_pump(scr, arr, 1);
    for (j = 0; j + 3 < c->sc.out.n; j++) if (!memcmp(c->sc.out.p + j, "\r\n\r\n", 4)) { he = (long)j + 4; break; }
    if (he < 0) return -1;
    vh_buf_consume(&c->sc.out, (size_t)he);
    raw_send(c, (const unsigned char *)"RFB 003.008\n", 12); vh_pump(scr, arr, 1);
    b[0] = 1; raw_send(c, b, 1); vh_pump(scr, arr, 1);
    b[0] = 1; raw_send(c, b, 1); vh_pump(scr, arr, 1);
    vh_buf_reset(&c->sc.out); vh_buf_reset(&c->wsplain);
    return (c->sc.cl && c->sc.cl->state == RFB_NORMAL) ? 0 : -1;
  }
  if (write(sv[1], "RFB 003.008\n", 12) != 12) return -1;
  c->kind = normal ? K_RAW : K_RAWPRE;
  c->sc.cl = rfbNewClient(scr, sv[0]);
  if (!c->sc.cl) return -1;
  c->sc.cl->clientData = &c->sc; c->sc.cl->clientGoneHook = vh_gone_hook;
  arr[0] = &c->sc;
  vh_pump(scr, arr, 1);
  if (!normal) {   /* version exchanged, security types offered, nothing chosen: RFB_SECURITY_TYPE */
    vh_buf_reset(&c->sc.out);
    return (c->sc.cl && c->sc.cl->state != RFB_NORMAL) ? 0 : -1;
  }
  b[0] = 1; vh_send(&c->sc, b, 1); vh_pump(scr, arr, 1);
  b[0] = 1; vh_send(&c->sc, b, 1); vh_pump(scr, arr, 1);
  vh_buf_reset(&c->sc.out);
  return (c->sc.cl && c->sc.cl->state == RFB_NORMAL) ? 0 : -1;
}

static int setup_lib(int id, int utf8) {
  conn_t *c = &C[id]; int sv[2]; hs_t h; pthread_t th;
  memset(c, 0, sizeof *c); c->lfd = c->ffd = -1;
  if (new_sockpair(sv) < 0) return -1;
  c->kind = K_LIB;
  c->lc = mk_libclient(utf8);
  c->lc->sock = sv[1]; c->lfd = sv[1];
  c->sc.peer = -1; c->sc.srvfd = sv[0];
  h.c = c->lc; h.done = 0; h.ok = 0;
  if (pthread_create(&th, NULL, hs_thread, &h)) return -1;
  c->sc.cl = rfbNewClient(scr, sv[0]);          /* waits 100 ms for a possible WebSocket GET */
  if (c->sc.cl) { c->sc.cl->clientData = &c->sc; c->sc.cl->clientGoneHook = vh_gone_hook; }
  while (!__atomic_load_n(&h.done, __ATOMIC_SEQ_CST)) rfbProcessEvents(scr, 1000);
  pthread_join(th, NULL);
  if (!h.ok || !c->sc.cl) return -1;
  nonblock(sv[1]);
  c->lc->width = c->lc->si.framebufferWidth; c->lc->height = c->lc->si.framebufferHeight;   /* as rfbInitConnection does */
  if (!c->lc->MallocFrameBuffer(c->lc)) return -1;
  if (!SetFormatAndEncodings(c->lc)) return -1;
  return 0;
}

static int setup_fsrv(int id, int utf8) {
  conn_t *c = &C[id]; int sv[2];
  static const unsigned char hs[] = {
    'R','F','B',' ','0','0','3','.','0','0','8','\n',
    1, 1,                 /* one security type: None */
    0, 0, 0, 0,           /* SecurityResult OK */
    0, 16, 0, 8,          /* ServerInit: 16x8 */
    32, 24, 0, 1, 0, 255, 0, 255, 0, 255, 16, 8, 0, 0, 0, 0,
    0, 0, 0, 1, 'v' };
  memset(c, 0, sizeof *c); c->lfd = c->ffd = -1;
  if (new_sockpair(sv) < 0) return -1;
  c->kind = K_FSRV;
  c->lc = mk_libclient(utf8);
  c->lc->sock = sv[1]; c->lfd = sv[1]; c->ffd = sv[0];
  nonblock(sv[0]);
  if (write(sv[0], hs, sizeof hs) != (ssize_t)sizeof hs) return -1;
  if (!InitialiseRFBConnection(c->lc)) return -1;
  nonblock(sv[1]);
  if (!SetFormatAndEncodings(c->lc)) return -1;
  drain_fd(c->ffd, &c->fout); vh_buf_reset(&c->fout);
  return 0;
}

static int write_all(int fd, const unsigned char *p, size_t n) {
  size_t off = 0;
  while (off < n) {
    ssize_t w = write(fd, p + off, n - off);
    if (w < 0) { if (errno == EINTR) continue; return -1; }
    off += (size_t)w;
  }
  return 0;
}

int main(void) {
  char *line; static char *tok[64];
  signal(SIGALRM, on_alarm);
  signal(SIGPIPE, SIG_IGN);
  real_read = (ssize_t (*)(int, void *, size_t))dlsym(RTLD_NEXT, "read");
  scr = vh_screen(16, 8, 4);
  if (!scr) { fprintf(stderr, "no screen\n"); return 2; }
  scr->setXCutText = cb_l1;
  scr->setXCutTextUTF8 = cb_u8;
  if (!getenv("VH_VERBOSE")) { rfbClientLog = quiet_clog; rfbClientErr = quiet_clog; }
  while ((line = vh_readline())) {
    int n, id;
    curop = line;
    n = vh_split(line, tok, 64);
    if (n == 0 || tok[0][0] == '#') continue;
    alarm(15);
    if (!strcmp(tok[0], "def") && n >= 3 && !strcmp(tok[2], "hex") && n == 4) {
      blob_t *b = blob_new(tok[1]); size_t hl = strlen(tok[3]); long r;
      if (!b) { puts("bad-op"); fflush(stdout); continue; }
      b->p = (unsigned char *)malloc(hl / 2 + 1);
      r = vh_unhex(tok[3], b->p, hl / 2 + 1);
      if (r < 0) { puts("bad-op"); fflush(stdout); continue; }
      b->n = (size_t)r; puts("ok"); fflush(stdout); continue;
    }
    if (!strcmp(tok[0], "def") && n >= 3 && !strcmp(tok[2], "cat")) {
      int k; size_t tot = 0; blob_t *b; unsigned char *p; int bad = 0;
      for (k = 3; k < n; k++) { blob_t *s = blob(tok[k]); if (!s) bad = 1; else tot += s->n; }
      if (bad) { puts("bad-op"); fflush(stdout); continue; }
      p = (unsigned char *)malloc(tot + 1); tot = 0;
      for (k = 3; k < n; k++) { blob_t *s = blob(tok[k]); if (s->n) memcpy(p + tot, s->p, s->n); tot += s->n; }
      b = blob_new(tok[1]);
      if (!b) { free(p); puts("bad-op"); fflush(stdout); continue; }
      b->p = p; b->n = tot; puts("ok"); fflush(stdout); continue;
    }
    if (!strcmp(tok[0], "zdef")) { puts("ok"); fflush(stdout); continue; }
    if (!strcmp(tok[0], "cb8") && n == 2) {
      scr->setXCutTextUTF8 = atoi(tok[1]) ? cb_u8 : NULL;
      finish_op(); continue;
    }
    if ((!strcmp(tok[0], "raw") || !strcmp(tok[0], "rawpre")) && n == 2) {
      id = atoi(tok[1]);
      if (id < 0 || id >= MAXC || C[id].kind) { puts("bad-op"); fflush(stdout); continue; }
      if (setup_raw(id, tok[0][3] == 0, 0) < 0) { puts("setup-failed"); fflush(stdout); continue; }
      finish_op(); continue;
    }
    if (!strcmp(tok[0], "rawws") && n == 3) {      /* reference peer over the WebSocket transport: 0 binary, 1 base64 */
      id = atoi(tok[1]);
      if (id < 0 || id >= MAXC || C[id].kind) { puts("bad-op"); fflush(stdout); continue; }
      if (setup_raw(id, 1, atoi(tok[2]) ? 2 : 1) < 0) { puts("setup-failed"); fflush(stdout); continue; }
      finish_op(); continue;
    }
    if (!strcmp(tok[0], "wsfr") && n == 3) {        /* frame boundaries of the next send (the model ignores framing) */
      char *q; conn_t *c;
      id = atoi(tok[1]);
      if (id >= 0 && id < MAXC && C[id].kind == K_RAW && C[id].ws) {
        c = &C[id]; c->nwsfr = 0;
        for (q = strtok(tok[2], ","); q && c->nwsfr < 8; q = strtok(NULL, ",")) {
          long v = atol(q);
          if (v > (c->nwsfr ? c->wsfr[c->nwsfr - 1] : 0)) c->wsfr[c->nwsfr++] = v;
        }
      }
      puts("ok"); fflush(stdout); continue;
    }
    if (!strcmp(tok[0], "fbu") && n == 2) {
      /* the library client asks for the whole framebuffer (twice: a size-only update may come
         first) and digests the updates, including the SupportedMessages pseudo-rectangle */
      static rfbSupportedMessages ref; static int have_ref; int r; conn_t *c;
      id = atoi(tok[1]);
      if (id < 0 || id >= MAXC || C[id].kind != K_LIB || C[id].dropped) { puts("bad-op"); fflush(stdout); continue; }
      c = &C[id];
      for (r = 0; r < 2 && !c->dropped; r++) {
        SendFramebufferUpdateRequest(c->lc, 0, 0, c->lc->width, c->lc->height, FALSE);
        pump();
      }
      if (!c->dropped) {
        if (!have_ref) { ref = c->lc->supportedMessages; have_ref = 1; }
        evf("sup%d:%d%d:%s", id, SupportsClient2Server(c->lc, rfbClientCutText) ? 1 : 0,
            SupportsServer2Client(c->lc, rfbServerCutText) ? 1 : 0,
            memcmp(&ref, &c->lc->supportedMessages, sizeof ref) ? "differs" : "same");
      }
      finish_op(); continue;
    }
    if ((!strcmp(tok[0], "lib") || !strcmp(tok[0], "fsrv")) && n == 3) {
      int r;
      id = atoi(tok[1]);
      if (id < 0 || id >= MAXC || C[id].kind) { puts("bad-op"); fflush(stdout); continue; }
      r = tok[0][0] == 'l' ? setup_lib(id, atoi(tok[2])) : setup_fsrv(id, atoi(tok[2]));
      if (r < 0) { puts("setup-failed"); fflush(stdout); continue; }
      finish_op(); continue;
    }
    if (!strcmp(tok[0], "viewonly") && n == 3) {
      id = atoi(tok[1]);
      if (id < 0 || id >= MAXC || !srv_open(id)) { puts("bad-op"); fflush(stdout); continue; }
      C[id].sc.cl->viewOnly = atoi(tok[2]) ? TRUE : FALSE;
      finish_op(); continue;
    }
    if (!strcmp(tok[0], "cuts") && n == 4) {
      int k, fd; char *p; cutsched *s = NULL;
      id = atoi(tok[1]);
      /* the model ignores segmentation: always "ok"; an inapplicable schedule is dropped */
      if (id < 0 || id >= MAXC || !C[id].kind) { puts("ok"); fflush(stdout); continue; }
      fd = tok[2][0] == 's' ? (srv_open(id) ? C[id].sc.cl->sock : -1) : C[id].lfd;
      if (fd < 0) { puts("ok"); fflush(stdout); continue; }
      for (k = 0; k < 4; k++) if (CS[k].active && CS[k].fd == fd) { s = &CS[k]; break; }
      for (k = 0; !s && k < 4; k++) if (!CS[k].active) { s = &CS[k]; break; }
      if (!s) { puts("ok"); fflush(stdout); continue; }
      memset(s, 0, sizeof *s); s->fd = fd;
      for (p = strtok(tok[3], ","); p && s->ncut < 8; p = strtok(NULL, ",")) {
        long v = atol(p);
        if (v > (s->ncut ? s->cut[s->ncut - 1] : 0)) s->cut[s->ncut++] = v;   /* strictly increasing, > 0 */
      }
      s->active = s->ncut > 0;
      puts("ok"); fflush(stdout); continue;
    }
    if (!strcmp(tok[0], "send") && n == 3) {
      blob_t *b = blob(tok[2]);
      id = atoi(tok[1]);
      if (id < 0 || id >= MAXC || C[id].kind != K_RAW || !b || !srv_open(id) || C[id].sc.peer < 0 || C[id].stalled) { puts("bad-op"); fflush(stdout); continue; }
      raw_send(&C[id], b->p, b->n);
      finish_op(); continue;
    }
    if (!strcmp(tok[0], "close") && n == 2) {
      id = atoi(tok[1]);
      if (id < 0 || id >= MAXC || (C[id].kind != K_RAW && C[id].kind != K_RAWPRE) || C[id].sc.peer < 0 || C[id].stalled) { puts("bad-op"); fflush(stdout); continue; }
      close(C[id].sc.peer); C[id].sc.peer = -1;
      if (C[id].kind == K_RAWPRE && C[id].sc.cl) rfbProcessClientMessage(C[id].sc.cl);
      finish_op(); continue;
    }
    if (!strcmp(tok[0], "stall") && n == 2) {
      /* the peer stops reading and the pipe towards it is (made) tiny: a large message can only be
         written in part, the rest times out after maxClientWait -> the write fails half-way
         (the header of a classic message has been accepted by then).  What the peer got is not
         observed any more. */
      int sz = 1024;
      id = atoi(tok[1]);
      if (id < 0 || id >= MAXC || C[id].kind != K_RAW || C[id].sc.peer < 0 || !srv_open(id) || C[id].stalled) { puts("bad-op"); fflush(stdout); continue; }
      drain_fd(C[id].sc.peer, &C[id].sc.out); vh_buf_reset(&C[id].sc.out);
      setsockopt(C[id].sc.cl->sock, SOL_SOCKET, SO_SNDBUF, &sz, sizeof sz);
      C[id].stalled = 1;
      finish_op(); continue;
    }
    if (!strcmp(tok[0], "kill") && n == 2) {
      /* the peer closes its end and the server does NOT get a chance to notice before the next op:
         the next write to this client fails (EPIPE) */
      id = atoi(tok[1]);
      if (id < 0 || id >= MAXC || (C[id].kind != K_RAW && C[id].kind != K_RAWPRE) || C[id].sc.peer < 0 || C[id].stalled) { puts("bad-op"); fflush(stdout); continue; }
      close(C[id].sc.peer); C[id].sc.peer = -1;
      finish_op_(0); continue;
    }
    if (!strcmp(tok[0], "senddie") && n == 3) {
      /* the peer sends and closes at once: replies of the handler cannot be written */
      blob_t *b = blob(tok[2]);
      id = atoi(tok[1]);
      if (id < 0 || id >= MAXC || C[id].kind != K_RAW || !b || !srv_open(id) || C[id].sc.peer < 0 || C[id].stalled) { puts("bad-op"); fflush(stdout); continue; }
      raw_send(&C[id], b->p, b->n);
      close(C[id].sc.peer); C[id].sc.peer = -1;
      finish_op(); continue;
    }
    if (!strcmp(tok[0], "pub") && n == 2) {
      blob_t *b = blob(tok[1]);
      if (!b) { puts("bad-op"); fflush(stdout); continue; }
      rfbGotXCutText(scr, (char *)(b->p ? b->p : (unsigned char *)""), (int)b->n);   /* cutpaste.c -> rfbSendServerCutText */
      finish_op(); continue;
    }
    if (!strcmp(tok[0], "pub8") && n == 3) {
      blob_t *b = blob(tok[1]); blob_t *f = strcmp(tok[2], "null") ? blob(tok[2]) : NULL;
      if (!b || (strcmp(tok[2], "null") && !f)) { puts("bad-op"); fflush(stdout); continue; }
      rfbSendServerCutTextUTF8(scr, (char *)b->p, (int)b->n, f ? (char *)(f->p ? f->p : (unsigned char *)"") : NULL, f ? (int)f->n : 0);
      finish_op(); continue;
    }
    if ((!strcmp(tok[0], "csend") || !strcmp(tok[0], "csend8")) && n == 3) {
      blob_t *b = blob(tok[2]); int r;
      id = atoi(tok[1]);
      if (id < 0 || id >= MAXC || (C[id].kind != K_LIB && C[id].kind != K_FSRV) || !b || C[id].dropped) { puts("bad-op"); fflush(stdout); continue; }
      r = tok[0][5] ? SendClientCutTextUTF8(C[id].lc, (char *)(b->p ? b->p : (unsigned char *)""), (int)b->n)
                    : SendClientCutText(C[id].lc, (char *)(b->p ? b->p : (unsigned char *)""), (int)b->n);
      evf("ret%d", r ? 1 : 0);
      finish_op(); continue;
    }
    if (!strcmp(tok[0], "fsend") && (n == 3 || n == 4)) {
      blob_t *b = blob(tok[2]);
      id = atoi(tok[1]);
      if (id < 0 || id >= MAXC || C[id].kind != K_FSRV || !b || C[id].dropped || C[id].ffd < 0) { puts("bad-op"); fflush(stdout); continue; }
      write_all(C[id].ffd, b->p, b->n);
      if (n == 4) shutdown(C[id].ffd, SHUT_WR);
      finish_op(); continue;
    }
    puts("bad-op"); fflush(stdout);
  }
  alarm(0);
  /* release everything the libraries own so that LeakSanitizer sees real leaks only */
  { int i;
    for (i = 0; i < MAXC; i++) {
      if (C[i].lc) { if (C[i].lfd >= 0) { close(C[i].lfd); C[i].lc->sock = RFB_INVALID_SOCKET; } free(C[i].lc->frameBuffer); C[i].lc->frameBuffer = NULL; rfbClientCleanup(C[i].lc); C[i].lc = NULL; }
      if (C[i].ffd >= 0) close(C[i].ffd);
      if ((C[i].kind == K_RAW || C[i].kind == K_RAWPRE) && C[i].sc.peer >= 0) close(C[i].sc.peer);
      free(C[i].sc.out.p); free(C[i].fout.p); free(C[i].wsplain.p);
    }
    rfbShutdownServer(scr, TRUE);
    free(scr->frameBuffer);
    rfbScreenCleanup(scr);
    for (i = 0; i < nB; i++) free(B[i].p);
    free(ev.p);
  }
  return 0;
}
