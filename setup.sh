#!/bin/sh
# Offline setup: regenerate Gen/ from /repo, build the Lean modules and drivers of every claimed
# property, prebuild the sanitized archives of the code under test.  A failure of one module does
# not stop the others: every check rebuilds (and reports on) exactly what it needs anyway.
cd "$(dirname "$0")"
python3 tools/gen_consts.py || echo "setup: T0 generation reported a problem (checks will report it)"
for id in $(python3 -c "import json;print(' '.join(c['property_id'] for c in json.load(open('MANIFEST.json'))['checks']))"); do
  lid=$(echo $id | tr A-Z a-z)
  (cd lean && lake build VncModel.Props.$id drv_$lid) >/dev/null 2>&1 || echo "setup: lean build for $id failed (its check will report it)"
done
python3 vlib/build.py >/dev/null || echo "setup: C build failed (checks will report it)"
exit 0
