#!/bin/sh
# Offline setup: regenerate Gen/ from /repo, build the Lean library + all drivers, prebuild the
# sanitized archives of the code under test. Every check rebuilds what it needs anyway.
set -e
cd "$(dirname "$0")"
python3 tools/gen_consts.py
(cd lean && lake build)
python3 vlib/build.py
